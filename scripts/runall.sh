#!/bin/bash
# run the quick (or given) tier of the listed properties one after another and summarise
TIER=${TIER:-quick}
cd /verif
for p in "$@"; do
  bin/check $p $TIER > /tmp/runall.$p.out 2>&1
  rc=$?
  echo "$p rc=$rc $(grep -E "^$p $TIER:" /tmp/runall.$p.out) viol=$(grep -c ^VIOLATION /tmp/runall.$p.out) rules: $(grep '^---- ' /tmp/runall.$p.out | awk '{print $3}' | sort | uniq -c | tr '\n' ' ')"
done
