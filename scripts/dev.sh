#!/bin/bash
# dev helper: rebuild lib + actor, run one shard of a property, print the shrunk failure
cd /verif; make -j16 lib-asan >/dev/null && make -j16 build/actor 2>&1 | grep -E "error" -A3
P=$1; N=${2:-400}; SEED=${3:-1}
mkdir -p build/run/t; rm -f build/run/t/*
./build/actor --prop $P --shard 0 --nshards 1 --seed $SEED --out build/run/t --cases $N > build/run/t/out.txt 2>&1
grep -A70 "^prog::Prog" build/run/t/out.txt | grep -v "^Some of your\|^RC_PARAMS" | head -${4:-90}
python3 -c "
import json; r=json.load(open('build/run/t/shard-0.json')); print(r['evaluations'], 'nontrivial', r['nontrivial_evaluations']); print({k:v for k,v in r['classes'].items()})"
