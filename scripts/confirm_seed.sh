#!/bin/bash
# Confirms a seeded change produced by a sub-agent: usage confirm_seed.sh <ID>
#  worktree /tmp/seed/<ID> (change applied), outputs in /tmp/seed/out/<ID>/{patch.diff,demo.c}
ID=$1; R=${SEEDROOT:-/tmp/seed}; W=$R/$ID; O=$R/out/$ID
set -o pipefail
cd $W || exit 2
build() { cmake -G Ninja -B _build -DBUILD_TESTS=ON -DCMAKE_BUILD_TYPE=RelWithDebInfo >/dev/null 2>&1 && cmake --build _build >/dev/null 2>&1; }
demo() { cc -g -O1 -I $W/Lib/core/public -I $W/Lib/structs/public -I $W/Lib/mem/public -I $W/Lib/thpool/public $O/demo.c -L $W/_build -lmodule_core -lmodule_structs -lmodule_mem -lmodule_thpool -lpthread -Wl,-rpath,$W/_build -o $R/demo_$ID 2>$R/demo_$ID.err || { echo "demo build failed"; cat $R/demo_$ID.err | head; return 99; }; timeout 60 $R/demo_$ID >$R/demo_$ID.out 2>&1; }
# 1. with the change
git diff --quiet && { echo "no change applied in $W"; exit 2; }
build || { echo "BUILD FAILED with change"; exit 1; }
ctest --test-dir _build --timeout 900 > $R/ctest_$ID.out 2>&1; t=$?
demo; d1=$?
# 2. without the change
git diff > $R/applied_$ID.diff; git apply -R $R/applied_$ID.diff; build; demo; d0=$?; git apply $R/applied_$ID.diff; build   # (git stash is shared between worktrees: never use it here)
echo "$ID: tests_with_change=$t demo_with_change=$d1 demo_without_change=$d0"
[ $t -eq 0 ] && [ $d1 -ne 0 ] && [ $d0 -eq 0 ] && echo "$ID CONFIRMED" || echo "$ID NOT CONFIRMED"
