#!/usr/bin/env python3
"""Regenerates MANIFEST.json from bin/registry.py (single source of truth)."""
import json, os, sys
ROOT = os.path.dirname(os.path.dirname(os.path.abspath(__file__)))
sys.path.insert(0, os.path.join(ROOT, "bin"))
from registry import CHECKS, META, ENGINES, NOT_APPLICABLE, HOOK_COMMITS
props = [json.loads(l) for l in open(os.path.join(ROOT, "properties.jsonl"))]
checks = []
na = []
for p in props:
    pid = p["id"]
    if pid in CHECKS and pid in META:
        m = META[pid]
        checks.append({
            "property_id": pid,
            "quick_cmd": "bin/check %s quick" % pid,
            "thorough_cmd": "bin/check %s thorough" % pid,
            "evidence_file": "/verif/evidence/%s.json" % pid,
            "replay_cmd_template": "bin/check %s --replay {path}" % pid,
            "engine": m["engine"],
            "level_claimed": {"category": "exploration", "text": m["level_text"], "design_ref": m["design_ref"]},
            "level_note": m["level_note"],
            "technique": m["technique"],
        })
    else:
        na.append({"property_id": pid, "reason": NOT_APPLICABLE.get(pid, "check not built yet in this session (planned, see DESIGN.md)")})
man = {
    "version": 1,
    "setup_cmd": "make -C /verif -j16 all",
    "hooks": {
        "guard": "LIBMODULE_VERIF",
        "enable": "scripts/buildlib.sh compiles /repo/Lib with -DLIBMODULE_VERIF into build/lib-{asan,tsan,fuzz}/libmodule.a (content-hash rebuild on every check)",
        "baseline_off_cmd": "/verif/scripts/baseline_off.sh",
        "source_commits": HOOK_COMMITS,
        "add_only": True,
    },
    "engines": ENGINES,
    "checks": checks,
    "notes": "Property-based testing / fuzzing only. Every check: regression replays -> known-finding probes -> sharded generated search (rapidcheck, seed derived from VERIF_SEED) -> 3x replay gate -> evidence. See DESIGN.md.",
    "not_applicable": na,
}
json.dump(man, open(os.path.join(ROOT, "MANIFEST.json"), "w"), indent=1)
print("MANIFEST.json: %d checks, %d not claimed" % (len(checks), len(na)))
