#!/bin/bash
# sweep.sh <seeds...> : runs every registered quick check for each seed (meant for `vp run`); prints one line per check
cd "$(dirname "$0")/.."
for seed in "$@"; do
  for p in C01 C02 C03 C04 C05 C06 C07 C08 C09 C10 C11 C12 C13 C14 C15 C16 C17 C18 C19 C20; do
    VERIF_SEED=$seed bin/check $p ${TIER:-quick} > sweep.$seed.$p.out 2>&1; rc=$?
    echo "seed=$seed $p rc=$rc $(grep -E "^$p (quick|thorough):" sweep.$seed.$p.out) viol=$(grep -c ^VIOLATION sweep.$seed.$p.out) rules: $(grep '^---- ' sweep.$seed.$p.out | awk '{print $3}' | sort | uniq -c | tr '\n' ' ') $(grep -c flaky_discarded sweep.$seed.$p.out) flaky"
  done
done
