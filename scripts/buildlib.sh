#!/bin/bash
# Build the library under test from $REPO/Lib (current working tree) into a static archive.
# usage: buildlib.sh <variant: asan|tsan|fuzz|plain> <repo> <outdir>
# Rebuilds only when the content hash of the sources (or the flags) changed.
set -e
VARIANT=$1; REPO=${2:-/repo}; OUT=$3
[ -n "$OUT" ] || { echo "usage: $0 variant repo outdir" >&2; exit 2; }
CC=${CC:-clang}
L=$REPO/Lib
case $VARIANT in
  asan) FL="-O1 -g -fno-omit-frame-pointer -fsanitize=address,undefined -fno-sanitize-recover=undefined" ;;
  tsan) FL="-O1 -g -fno-omit-frame-pointer -fsanitize=thread" ;;
  fuzz) FL="-O1 -g -fno-omit-frame-pointer -fsanitize=address,undefined,fuzzer-no-link -fno-sanitize-recover=undefined" ;;
  plain) FL="-O1 -g" ;;
  *) echo "unknown variant $VARIANT" >&2; exit 2 ;;
esac
FL="$FL -std=gnu11 -D_GNU_SOURCE -DLIBMODULE_VERIF -Wno-everything -fPIC"
INC="-I$L/core -I$L/core/public -I$L/core/fs -I$L/core/poll -I$L/utils -I$L/structs -I$L/structs/public -I$L/mem -I$L/mem/public -I$L/thpool -I$L/thpool/public"
mkdir -p "$OUT"
# Generated public headers (git-ignored in the repository): regenerate from the templates when missing.
GEN=$OUT/gen/module; mkdir -p "$GEN"
for h in cmn ctx; do
  # a tree that was never configured with CMake (fresh scratch worktree) lacks them; the library sources include them by their
  # in-tree path ("public/module/<h>.h", #pragma once), so they are generated in place (they are git-ignored there)
  if [ ! -f $L/core/public/module/$h.h ]; then sed -e 's/@PROJECT_VERSION_MAJOR@/6/;s/@PROJECT_VERSION_MINOR@/0/;s/@PROJECT_VERSION_PATCH@/0/;s/@M_CTX_HAS_FS@//' $L/core/public/module/$h.h.in > $L/core/public/module/$h.h; fi
  if [ -f $L/core/public/module/$h.h ]; then cp $L/core/public/module/$h.h $GEN/$h.h
  else sed -e 's/@PROJECT_VERSION_MAJOR@/6/;s/@PROJECT_VERSION_MINOR@/0/;s/@PROJECT_VERSION_PATCH@/0/;s/@M_CTX_HAS_FS@//' $L/core/public/module/$h.h.in > $GEN/$h.h; fi
done
INC="$INC -I$OUT/gen"
SRCS=$(cd $L && ls core/*.c core/fs/fs_noop.c core/poll/epoll.c core/poll/cmn_linux.c structs/*.c mem/*.c thpool/*.c utils/*.c)
HASH=$( (cd $L && cat $SRCS $(find . -name '*.h' -o -name '*.h.in' | sort); echo "$FL $CC") | sha1sum | cut -d' ' -f1)
if [ -f "$OUT/.hash" ] && [ "$(cat $OUT/.hash)" = "$HASH" ] && [ -f "$OUT/libmodule.a" ]; then exit 0; fi
rm -f $OUT/*.o $OUT/libmodule.a $OUT/.hash
compile_one() {
  src=$1
  case $src in core/*) CTX=CORE;; structs/*) CTX=STRUCTS;; mem/*) CTX=MEM;; thpool/*) CTX=THPOOL;; *) CTX=OTHER;; esac
  obj=$OUT/$(echo $src | tr '/' '_' | sed 's/\.c$/.o/')
  $CC $FL $INC -DLIBMODULE_LOG_CTX=$CTX -c $L/$src -o $obj
}
export -f compile_one; export CC FL INC OUT L
echo "$SRCS" | tr ' ' '\n' | xargs -P 16 -I{} bash -c 'compile_one {}'
ar rcs $OUT/libmodule.a $OUT/*.o
echo "$HASH" > $OUT/.hash
