#!/bin/bash
# seeded_matrix.sh [ids...]  -- for each /verif/seeded/<id>/patch.diff: scratch worktree of /repo HEAD (outside /repo and /verif),
# apply the change, run the quick check of its property against it (VERIF_BUILD=build-mut: no evidence is written), remove the worktree.
# BASE=<commit> uses an older commit of /repo as the base (for changes that touch code a later fix: commit rewrote).
# Prints one line per seeded change; a line with viol=0 means the check misses that change.
cd /verif
IDS="$@"; [ -z "$IDS" ] && IDS=$(ls seeded)
ROOT=/var/tmp/lmv-seed; mkdir -p $ROOT
for id in $IDS; do
  p=$(python3 -c "import json;print(json.load(open('seeded/$id/meta.json'))['property'])")
  W=$ROOT/$id
  git -C /repo worktree add -q --detach $W ${BASE:-HEAD} 2>/dev/null || { echo "$id: cannot create worktree"; continue; }
  if git -C $W apply --3way /verif/seeded/$id/patch.diff >/dev/null 2>&1; then
    echo -n "$id: "; scripts/try_mutant.sh $W $p
  else
    echo "$id: patch does not apply to the current HEAD (superseded by a later fix?)"
  fi
  git -C /repo worktree remove --force $W
done
rm -rf /verif/build-mut/run /verif/build-mut/scratch-evidence
