#!/bin/bash
# usage: try_mutant.sh <repo_dir_with_change> <ID> [more IDs...]   -- runs the quick checks against that tree
D=$1; shift
cd /verif
for p in "$@"; do
  VERIF_REPO=$D VERIF_BUILD=${VERIF_BUILD:-build-mut} timeout 1500 bin/check $p quick > /tmp/mut.$p.out 2>&1; rc=$?
  echo "$p rc=$rc $(grep -E "^$p quick:" /tmp/mut.$p.out) viol=$(grep -c ^VIOLATION /tmp/mut.$p.out) rules: $(grep '^---- ' /tmp/mut.$p.out | awk '{print $3}' | sort | uniq -c | tr '\n' ' ')"
done
