#!/bin/bash
# Repository's own test suite with the verification guard OFF (no -DLIBMODULE_VERIF anywhere).
set -e
REPO=${VERIF_REPO:-/repo}
cmake --build $REPO/_build >/dev/null
exec ctest --test-dir $REPO/_build -j8 --timeout 900 "$@"
