# Builds the harness binaries into build/.  The library under test is always compiled from
# $(REPO)/Lib (current working tree) by scripts/buildlib.sh, which rebuilds on content change.
REPO ?= /repo
B ?= build
CXX := clang++
CXXFLAGS := -std=gnu++17 -g -O1 -fno-omit-frame-pointer -Wno-everything
ASAN := -fsanitize=address,undefined -fno-sanitize-recover=undefined
TSAN := -fsanitize=thread
LIBINC = -I$(REPO)/Lib/structs/public -I$(REPO)/Lib/mem/public -I$(REPO)/Lib/thpool/public -I$(REPO)/Lib/core/public
COMMON := $(wildcard harness/common/*.hpp)

STRUCT_BINS := $(B)/qsl $(B)/map $(B)/bst $(B)/mem
ACTOR_HDR := $(wildcard harness/actor/*.hpp harness/actor/*.inc)
ALL := $(STRUCT_BINS) $(B)/actor $(B)/thpool $(B)/thpool_race $(B)/foreign $(B)/ctxrace

.PHONY: all bins fuzz lib-asan lib-tsan lib-fuzz clean FORCE
all:
	@$(MAKE) --no-print-directory lib-asan lib-tsan
	@$(MAKE) --no-print-directory bins
bins: $(ALL)

lib-asan: FORCE
	@scripts/buildlib.sh asan $(REPO) $(B)/lib-asan
lib-tsan: FORCE
	@scripts/buildlib.sh tsan $(REPO) $(B)/lib-tsan
lib-fuzz: FORCE
	@scripts/buildlib.sh fuzz $(REPO) $(B)/lib-fuzz
# NOTE: the archives are (re)built by the lib-* targets, which the driver always runs in a separate
# make invocation *before* building the binaries, so that the binaries' mtime comparison sees the
# fresh archive.  `make all` does the same through the recursive calls below.

# harness objects depend only on harness sources (and the public headers); relinked when the archive changes
$(B)/obj/%.o: harness/%.cpp $(COMMON)
	@mkdir -p $(dir $@)
	$(CXX) $(CXXFLAGS) $(ASAN) $(LIBINC) -I$(B)/lib-asan/gen -c $< -o $@

$(STRUCT_BINS): $(B)/%: $(B)/obj/structs/%.o $(B)/lib-asan/libmodule.a
	$(CXX) $(ASAN) $< $(B)/lib-asan/libmodule.a -lrapidcheck -lpthread -ldl -o $@

$(B)/obj/actor/%.o: harness/actor/%.cpp $(COMMON) $(ACTOR_HDR)
	@mkdir -p $(dir $@)
	$(CXX) $(CXXFLAGS) $(ASAN) $(LIBINC) -I$(B)/lib-asan/gen -c $< -o $@
$(B)/actor: $(B)/obj/actor/gen.o $(B)/obj/actor/exec.o $(B)/lib-asan/libmodule.a
	$(CXX) $(ASAN) -Wl,--wrap=close -Wl,--wrap=epoll_wait -Wl,--wrap=regcomp -Wl,--wrap=regfree $(B)/obj/actor/gen.o $(B)/obj/actor/exec.o $(B)/lib-asan/libmodule.a -lrapidcheck -lpthread -ldl -o $@

WRAPS := -Wl,--wrap=pthread_create -Wl,--wrap=pthread_join -Wl,--wrap=pthread_mutex_init -Wl,--wrap=pthread_mutex_lock -Wl,--wrap=pthread_mutex_unlock -Wl,--wrap=pthread_mutex_destroy -Wl,--wrap=pthread_cond_init -Wl,--wrap=pthread_cond_wait -Wl,--wrap=pthread_cond_signal -Wl,--wrap=pthread_cond_broadcast -Wl,--wrap=pthread_cond_destroy -Wl,--wrap=pthread_attr_setdetachstate
$(B)/obj/thpool/%.o: harness/thpool/%.cpp $(COMMON) harness/thpool/sched.hpp
	@mkdir -p $(dir $@)
	$(CXX) $(CXXFLAGS) $(ASAN) $(LIBINC) -I$(B)/lib-asan/gen -c $< -o $@
$(B)/thpool: $(B)/obj/thpool/pool.o $(B)/obj/thpool/sched.o $(B)/lib-asan/libmodule.a
	$(CXX) $(ASAN) $(WRAPS) $(B)/obj/thpool/pool.o $(B)/obj/thpool/sched.o $(B)/lib-asan/libmodule.a -lrapidcheck -lpthread -ldl -o $@

$(B)/thpool_race: harness/thpool/race.cpp $(COMMON) $(B)/lib-tsan/libmodule.a
	$(CXX) $(CXXFLAGS) $(TSAN) $(LIBINC) -I$(B)/lib-tsan/gen harness/thpool/race.cpp $(B)/lib-tsan/libmodule.a -lrapidcheck -lpthread -ldl -o $@

$(B)/foreign: harness/multictx/foreign.cpp $(COMMON) $(B)/lib-asan/libmodule.a
	$(CXX) $(CXXFLAGS) $(ASAN) $(LIBINC) -I$(B)/lib-asan/gen harness/multictx/foreign.cpp $(B)/lib-asan/libmodule.a -lrapidcheck -lpthread -ldl -o $@
$(B)/ctxrace: harness/multictx/ctxrace.cpp $(COMMON) $(B)/lib-tsan/libmodule.a
	$(CXX) $(CXXFLAGS) $(TSAN) $(LIBINC) -I$(B)/lib-tsan/gen harness/multictx/ctxrace.cpp $(B)/lib-tsan/libmodule.a -lrapidcheck -lpthread -ldl -o $@

FUZZ_BINS := $(B)/fuzz_map $(B)/fuzz_bst $(B)/fuzz_qsl $(B)/fuzz_mem
fuzz: $(FUZZ_BINS) $(B)/fuzz_actor
$(FUZZ_BINS): $(B)/fuzz_%: harness/structs/%.cpp $(COMMON) $(B)/lib-fuzz/libmodule.a
	$(CXX) $(CXXFLAGS) -fsanitize=fuzzer,address,undefined -fno-sanitize-recover=undefined -DFUZZ_TARGET $(LIBINC) -I$(B)/lib-fuzz/gen $< $(B)/lib-fuzz/libmodule.a -lpthread -ldl -o $@

clean:
	rm -rf $(B)
FORCE:

# engine B under libFuzzer: executor + model + decoder in one binary, fork per case with shared coverage counters
$(B)/fuzz_actor: harness/actor/fuzz.cpp harness/actor/exec.cpp $(COMMON) $(ACTOR_HDR) $(B)/lib-fuzz/libmodule.a
	$(CXX) $(CXXFLAGS) -fsanitize=fuzzer,address,undefined -fno-sanitize-recover=undefined $(LIBINC) -I$(B)/lib-fuzz/gen -Wl,--wrap=close -Wl,--wrap=epoll_wait -Wl,--wrap=regcomp -Wl,--wrap=regfree -Wl,--wrap=__sanitizer_cov_8bit_counters_init harness/actor/fuzz.cpp harness/actor/exec.cpp $(B)/lib-fuzz/libmodule.a -lpthread -ldl -o $@
