# Builds the harness binaries into build/.  The library under test is always compiled from
# $(REPO)/Lib (current working tree) by scripts/buildlib.sh, which rebuilds on content change.
REPO ?= /repo
B := build
CXX := clang++
CXXFLAGS := -std=gnu++17 -g -O1 -fno-omit-frame-pointer -Wno-everything
ASAN := -fsanitize=address,undefined -fno-sanitize-recover=undefined
TSAN := -fsanitize=thread
LIBINC = -I$(REPO)/Lib/structs/public -I$(REPO)/Lib/mem/public -I$(REPO)/Lib/thpool/public -I$(REPO)/Lib/core/public
COMMON := $(wildcard harness/common/*.hpp)

STRUCT_BINS := $(B)/qsl $(B)/map $(B)/bst $(B)/mem
ACTOR_HDR := $(wildcard harness/actor/*.hpp harness/actor/*.inc)
ALL := $(STRUCT_BINS) $(B)/actor

.PHONY: all bins lib-asan lib-tsan lib-fuzz clean FORCE
all:
	@$(MAKE) --no-print-directory lib-asan lib-tsan
	@$(MAKE) --no-print-directory bins
bins: $(ALL)

lib-asan: FORCE
	@scripts/buildlib.sh asan $(REPO) $(B)/lib-asan
lib-tsan: FORCE
	@scripts/buildlib.sh tsan $(REPO) $(B)/lib-tsan
lib-fuzz: FORCE
	@scripts/buildlib.sh fuzz $(REPO) $(B)/lib-fuzz
# NOTE: the archives are (re)built by the lib-* targets, which the driver always runs in a separate
# make invocation *before* building the binaries, so that the binaries' mtime comparison sees the
# fresh archive.  `make all` does the same through the recursive calls below.

# harness objects depend only on harness sources (and the public headers); relinked when the archive changes
$(B)/obj/%.o: harness/%.cpp $(COMMON)
	@mkdir -p $(dir $@)
	$(CXX) $(CXXFLAGS) $(ASAN) $(LIBINC) -I$(B)/lib-asan/gen -c $< -o $@

$(STRUCT_BINS): $(B)/%: $(B)/obj/structs/%.o $(B)/lib-asan/libmodule.a
	$(CXX) $(ASAN) $< $(B)/lib-asan/libmodule.a -lrapidcheck -lpthread -ldl -o $@

$(B)/obj/actor/%.o: harness/actor/%.cpp $(COMMON) $(ACTOR_HDR)
	@mkdir -p $(dir $@)
	$(CXX) $(CXXFLAGS) $(ASAN) $(LIBINC) -I$(B)/lib-asan/gen -c $< -o $@
$(B)/actor: $(B)/obj/actor/gen.o $(B)/obj/actor/exec.o $(B)/lib-asan/libmodule.a
	$(CXX) $(ASAN) $(B)/obj/actor/gen.o $(B)/obj/actor/exec.o $(B)/lib-asan/libmodule.a -lrapidcheck -lpthread -ldl -o $@

clean:
	rm -rf $(B)
FORCE:
