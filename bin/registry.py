# Property -> stages (binary, make targets, default case counts per tier).
# Each stage is a harness binary run as N shards; "magic" is the first word of its case files.

def A(binary, magic, name=None, cases=None, **kw):
    d = {"name": name or binary, "binary": "build/" + binary, "targets": ["build/" + binary], "magic": magic}
    if cases:
        d["cases"] = cases
    d.update(kw)
    return d

CHECKS = {
    "C12": {
        "stages": [A("qsl", "qsl1", exhaustive_stage=True)],
        "key_classes": ["iterator-edit-at-end", "itr-insert"],
        "assumptions": [
            "elements are non-NULL pointers owned by the harness; iterators are used get -> edit -> next and released with the allocator's free when abandoned (there is no iterator free API)",
            "after an iterator removal the next call on that iterator is next()",
            "destructor behaviour for an element overwritten through itr_set_data is not prescribed (0 or 1 calls accepted)",
            "position chosen by m_list_insert is not prescribed (multiset + relative order of the others is)",
        ],
    },
}

HOOK_COMMITS = ["c688b16 verif hook: m_map_verif_slot (Lib/structs/map.c, guarded by LIBMODULE_VERIF): reports home slot / current slot / table size of a key; used only to steer key and module-name generation and to classify cases"]
NOT_APPLICABLE = {}
ENGINES = [
    {"name": "A-structs", "path": "harness/structs", "serves_properties": ["C05", "C10", "C11", "C12"],
     "kind_free_text": "in-process model-based rapidcheck tests (+ bounded-exhaustive enumeration) of containers and ref-counted memory against C++ reference models, ASan/UBSan build"},
]
META = {
    "C12": {
        "engine": "A-structs", "design_ref": "DESIGN.md section 3 (C12)",
        "technique": "bounded-exhaustive operation-sequence enumeration + rapidcheck stateful model-based testing against std::vector models",
        "level_text": "Exhaustive over all op sequences up to length 5 (quick) / 6 (thorough) of a fixed alphabet for queue, stack and list (without comparator, with an equality comparator and with an asymmetric one), plus random sequences up to 80 ops; every step compared with an array model, destructor log and allocator balance. Establishes the property for the explored sequences only.",
        "level_note": "Trusts the C++ reference model, the read-back through m_*_iterate (cross-checked by len/peek/dequeue), clang ASan/UBSan; spec corners listed in DESIGN.md 8.2 are not judged.",
    },
}

CHECKS["C05"] = {
    "stages": [A("map", "map1")],
    "key_classes": ["growth", "iterate-with-removal", "itr-with-removal", "remove-with-wrapped-cluster", "update-on-dup"],
    "assumptions": [
        "keys passed to a map that neither copies nor owns them stay alive while the entry does; keys handed to a KEY_AUTOFREE (non-duplicating) map are allocated with the configured allocator and are owned by the map only if it stored that pointer",
        "a visitor / iterator only removes the entry it is currently visiting (documented restriction of m_map_iterate)",
        "destructor behaviour for a value overwritten through itr_set_data is not prescribed; re-putting the identical pointer is not a replacement",
        "-ENOMEM from put (probe limit) is accepted as 'fails without effect' and verified to have none",
    ],
}

CHECKS["C11"] = {
    "stages": [A("bst", "bst1", exhaustive_stage=True)],
    "key_classes": ["remove-two-children", "itr-remove", "default-cmp"],
    "assumptions": [
        "with the default comparator elements are opaque non-NULL pointer values that the library never dereferences",
        "the user comparator is a consistent total order over the element keys",
        "iterators are released with the allocator's free when abandoned",
    ],
}

CHECKS["C10"] = {
    "stages": [A("mem", "mem1", exhaustive_stage=True)],
    "key_classes": ["nested-dtor", "out-of-order-release", "min-aligned-allocator"],
    "assumptions": [
        "the configured allocator returns memory aligned for max_align_t (16 bytes here), as malloc must; one harness allocator returns exactly that and never more",
        "the memhook is installed before the first allocation",
    ],
}

META["C05"] = {
    "engine": "A-structs", "design_ref": "DESIGN.md section 3 (C05)",
    "technique": "rapidcheck stateful model-based testing against std::map with hook-steered colliding/wrapping key pools",
    "level_text": "Random operation sequences over all flag combinations with key pools steered (through the guarded hook) onto shared home slots at the table end/start, probe runs longer than half the table (one key per consecutive home slot), across growth; every step compared with a std::map model, visited-exactly-once for both iteration styles, destructor log and allocator accounting. Holds for explored sequences only.",
    "level_note": "Trusts the std::map model, clang ASan/UBSan, the tracking allocator installed via m_set_memhook; the hook m_map_verif_slot only steers generation and classification (no oracle uses it).",
}
META["C10"] = {
    "engine": "A-structs", "design_ref": "DESIGN.md section 3 (C10)",
    "technique": "exhaustive size sweep + rapidcheck stateful testing against a refcount model with destructor/allocator logs",
    "level_text": "Every size 0..4200 (thorough 0..8300) with two allocator alignments is checked for alignment/size/writability; random ref/unref/unrefp histories on populations with nested destructors are checked against an integer refcount model, destructor-before-free ordering and allocator balance.",
    "level_note": "Trusts the refcount model, the tracking allocator (public memhook), ASan redzones for out-of-bounds detection.",
}
META["C11"] = {
    "engine": "A-structs", "design_ref": "DESIGN.md section 3 (C11)",
    "technique": "exhaustive insertion-order enumeration (K<=6/7) + rapidcheck stateful model-based testing against std::map",
    "level_text": "All insertion orders of up to 6 (quick) / 7 (thorough) keys with every single removal by key and by iterator, plus random sequences over 32 keys with user and default comparator (far-apart 64-bit pointer values); sorted in-order, BST-consistent pre/post order, destructor identity and allocator accounting checked at every step.",
    "level_note": "Trusts the std::map model under the mathematical order, ASan/UBSan, the tracking allocator.",
}

def B(prop, cases_quick=1600, cases_thorough=40000):
    return {"stages": [A("actor", "actor1", cases={"quick": cases_quick, "thorough": cases_thorough})], "assumptions": ACTOR_ASSUMPTIONS}

ACTOR_ASSUMPTIONS = [
    "generated programs respect the documented preconditions: handles passed are live references owned by the caller; a descriptor number is registered in at most one module at a time; modules are driven from their own thread",
    "module / pub-sub calls issued while a DENY_CTX module's callback is innermost, self-directed life-cycle calls inside evaluation callbacks, and replacing the last module of an idle non-persistent context are not generated (spec corners / known exclusions, counted in the evidence)",
    "libc regcomp/regexec (POSIX basic syntax) decide which subscriptions match a topic",
    "a failure of another property's rule ends the case without verdict for this property (counted as foreign-rule:<id>)",
]
for _p in ["C01", "C02", "C03", "C04", "C07", "C08", "C09", "C13", "C15", "C16", "C17", "C19", "C20"]:
    CHECKS[_p] = B(_p)

ENGINES.append({"name": "B-actor", "path": "harness/actor", "serves_properties": ["C01", "C02", "C03", "C04", "C07", "C08", "C09", "C13", "C15", "C16", "C17", "C19", "C20"],
                "kind_free_text": "rapidcheck-generated actor programs (modules with scripted re-entrant callbacks) executed in a forked child against the ASan/UBSan build, in lock step with a reference model of the documented semantics; per-property generator profiles and rule sets"})
_B_NOTE = "Trusts: the lock-step reference model (harness/actor, written from the property statements and docs), libc regcomp/regexec, clang ASan/UBSan, the tracking allocator installed through m_set_memhook, /proc/self/fd. Not judged: the spec corners listed in DESIGN.md 8.2 and the excluded shapes counted in the evidence."
def _metaB(pid, sec, text):
    META[pid] = {"engine": "B-actor", "design_ref": "DESIGN.md section 4 (%s)" % sec,
                 "technique": "rapidcheck stateful / model-based testing of generated actor programs with re-entrant callback scripts against a lock-step reference model (fork per case, ASan/UBSan)",
                 "level_text": text + " Holds for the explored programs only (<= 4 modules, <= 70 top-level ops, callback scripts <= 4 re-entrant ops, nesting depth <= 4); both driving modes (harness-issued m_ctx_dispatch calls and a blocking m_ctx_loop run by a driver module); injected polling faults; allocator refusals at chosen allocations of context / source registration, m_mod_become and the loop start; thorough tier adds a coverage-guided libFuzzer campaign over byte-decoded programs.",
                 "level_note": _B_NOTE}
_metaB("C01", "C01", "Life-cycle calls in every state (about half illegal), callbacks that refuse / stop / deregister re-entrantly, evaluation passes: each return code, each start/stop/eval/handler callback and every state/running-count probe is checked against the documented state machine.")
_metaB("C02", "C02", "Sends of all kinds over literal and regex subscriptions in mixed module states, floods beyond the pipe size, auto-free payloads: eligibility sets computed by the model at send time, every delivered event matched against the recipient's mailbox, loop-end delivery obligation, payload release accounting.")
_metaB("C03", "C03", "Descriptor/timer/pub-sub sources made ready in shared poll batches, errno values left by callbacks, quit with pending events: owner/user-data routing, one-shot retirement, loop return code and no-drop obligations.")
_metaB("C04", "C04", "Union of all profiles with retained module/event references, self-stop/deregister/unsubscribe inside handlers with messages in flight and pipe-filling bursts: no sanitizer report, no allocator misuse, zombies answer, nothing outstanding after teardown.")
_metaB("C07", "C07", "Context register/deregister/finalize/dispatch interleaved with module registrations, also from callbacks: EEXIST on second context, failing calls without context, teardown stops and zombifies every module, auto-release vs persistence, finalize.")
_metaB("C08", "C08", "Several senders, batching, pause/resume, loop stop/restart, poison pills: per-recipient delivery order equals accept order; the pill stops its recipient only after everything sent before it and nothing after it is delivered.")
_metaB("C09", "C09", "Register/deregister of descriptor, timer and subscription sources in every order on idle/running/paused/stopped modules: keyed-set model per kind and m_mod_src_len per kind after every call.")
_metaB("C13", "C13", "Batch sizes, timeouts, LOW/NORM/HIGH subscriptions and descriptor sources: prefix-trigger rule on every handler invocation, quiescence obligation, no loss/duplication.")
_metaB("C15", "C15", "All module flag combinations, equal names in every order, restricted calls from outside and from every callback kind: permission model and absence of effects.")
_metaB("C16", "C16", "stash / unstash(n) for n around the stash size from outside and inside handlers: FIFO model, exact count, identical events, single nested invocation.")
_metaB("C17", "C17", "become/unbecome from outside and inside handlers across deliveries and stop/start: handler-stack model, identity of every invoked handler.")
_metaB("C19", "C19", "Subscribers to system topics (literal and regex) while other modules start/resume/pause/stop/deregister and the loop starts/stops: required notifications must arrive, every system-flagged event must correspond to an occurrence.")
_metaB("C20", "C20", "Descriptor and timer sources with auto-close / dup / one-shot flags across every way a module can leave: /proc/self/fd before/after equality and ownership of closes.")

CHECKS["C18"] = B("C18", 350, 6000)
_metaB("C18", "C18", "Timed profile: token buckets of several (rate, burst) pairs, bursts of token-consuming calls separated by generated sleeps and dispatches, re-configurations with user timers present: counting bound b + r*t over every window of accepted calls on the harness clock (sound direction), EAGAIN means no effect, recovery after refill time, no limit after rate 0 or stop/start.")

CHECKS["C06"] = {
    "stages": [
        A("thpool", "pool1", name="controlled", cases={"quick": 1500, "thorough": 60000}),
        A("thpool_race", "race1", name="race", cases={"quick": 60, "thorough": 1500}, libs=("lib-tsan",), gate_tries=10, gate_need=1),
    ],
    "key_classes": ["preempted", "spurious-wakeup", "flags=2", "flags=3"],
    "assumptions": [
        "the pool handle is not used concurrently with or after m_thpool_free (the freeing thread frees after every submitter returned)",
        "pre-emption happens at lock / condition / thread calls only in the controlled stage; interleavings inside critical sections and around the lock-free running-task counter are only sampled by the ThreadSanitizer stage with real threads",
        "tasks submitted before a concurrent m_thpool_clear returned may legitimately never run",
    ],
}
ENGINES.append({"name": "C-thpool", "path": "harness/thpool", "serves_properties": ["C06"],
                "kind_free_text": "cooperative scheduler interposed at link time on pthread create/join/mutex/cond (harness owns the schedule; generated choice sequences incl. spurious wake-ups; fork per schedule) + real-thread ThreadSanitizer stage"})
META["C06"] = {
    "engine": "C-thpool", "design_ref": "DESIGN.md section 5",
    "technique": "property-based schedule exploration: rapidcheck-generated schedules executed by a harness-owned cooperative scheduler (link-time pthread interposition) + generated real-thread configurations under ThreadSanitizer",
    "level_text": "Generated schedules at lock/condition/thread-call granularity for pools of 1-4 threads (eager, lazy, detached), 1-3 submitters, both shutdown modes and deep queues (33-56 tasks behind a task held in progress until the freeing thread waits inside m_thpool_free): exactly-once, bounds, shutdown contract, no use after destroy, deadlock and primitive misuse are verdicts of the controlled run; race freedom is sampled with real threads under ThreadSanitizer. Explored schedules only; no exhaustive enumeration.",
    "level_note": "Trusts the scheduler shim's model of mutex/condition semantics (harness/thpool/sched.cpp), ASan, ThreadSanitizer's happens-before analysis.",
}

CHECKS["C14"] = {
    "stages": [
        A("foreign", "foreign1", name="foreign", cases={"quick": 400, "thorough": 6000}, exhaustive_stage=True),
        A("ctxrace", "ctxrace1", name="independence", cases={"quick": 120, "thorough": 2500}, libs=("lib-tsan",), gate_tries=10, gate_need=1),
    ],
    "key_classes": ["loops-overlapped", "B-own-ctx", "B-no-ctx"],
    "assumptions": [
        "foreign-thread matrix: hand-offs between the two threads are strictly sequential (no real concurrency in that stage)",
        "independence stage: interleavings are the operating system's (barrier + generated yields); ThreadSanitizer's happens-before analysis decides raciness; the memhook and logger tables are process-wide by design and set before threads start",
    ],
}
ENGINES.append({"name": "D-multictx", "path": "harness/multictx", "serves_properties": ["C14"],
                "kind_free_text": "two-thread sequential hand-off harness (foreign-call matrix, ASan) + K concurrent contexts under ThreadSanitizer with solo-vs-concurrent differential oracle"})
META["C14"] = {
    "engine": "D-multictx", "design_ref": "DESIGN.md section 6",
    "technique": "exhaustive foreign-thread call matrix + rapidcheck-generated call sequences (return code / unchanged-state oracle); generated concurrent multi-context programs under ThreadSanitizer with a solo-run differential oracle",
    "level_text": "All 4 x 2 x 38 (state x foreign-thread kind x public call) cells plus random call sequences are checked for refusal and absence of effects; independence is sampled with 2-4 concurrently looping contexts (ThreadSanitizer report or trace difference = violation).",
    "level_note": "Trusts ThreadSanitizer and the operating system's thread interleavings for the independence stage; absence of races is shown only for the executed interleavings' happens-before relations.",
}

CHECKS["C09"]["stages"].append(A("actor", "actor1", name="registry", cases={"quick": 1500, "thorough": 30000}, args=["--profile", "registry"]))


# libFuzzer supplements (thorough tier only): the same case type, model and oracle behind a structure-aware byte decoder
def F(binary, runs_thorough, name="libfuzzer", **kw):
    d = {"name": name, "kind": "libfuzzer", "binary": "build/" + binary, "targets": ["build/" + binary], "libs": ("lib-fuzz",),
         "runs": {"thorough": runs_thorough}}
    d.update(kw)
    return d

CHECKS["C12"]["stages"].append(F("fuzz_qsl", 400000))
CHECKS["C05"]["stages"].append(F("fuzz_map", 120000))
CHECKS["C11"]["stages"].append(F("fuzz_bst", 400000))
CHECKS["C10"]["stages"].append(F("fuzz_mem", 400000))
for _p in ("C05", "C10", "C11", "C12"):
    META[_p]["technique"] += " + coverage-guided libFuzzer campaign over the same op type and oracle (thorough tier)"

# engine B under libFuzzer: structure-aware decoder -> actor program, fork per case with the coverage counters shared with the child
for _p in ["C01", "C02", "C03", "C04", "C07", "C08", "C09", "C13", "C15", "C16", "C17", "C19", "C20"]:
    CHECKS[_p]["stages"].append(F("fuzz_actor", 40000, env={"FUZZ_PROP": _p}, max_len=512, timeout=90, seed_corpus=["harness/actor/fuzz_corpus"], extra_args=["-len_control=0"]))
    META[_p]["technique"] += " + coverage-guided libFuzzer campaign over byte-decoded actor programs with the same model and rules (thorough tier)"
