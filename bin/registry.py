# Property -> stages (binary, make targets, default case counts per tier).
# Each stage is a harness binary run as N shards; "magic" is the first word of its case files.

def A(binary, magic, name=None, cases=None, **kw):
    d = {"name": name or binary, "binary": "build/" + binary, "targets": ["build/" + binary], "magic": magic}
    if cases:
        d["cases"] = cases
    d.update(kw)
    return d

CHECKS = {
    "C12": {
        "stages": [A("qsl", "qsl1", exhaustive_stage=True)],
        "key_classes": ["iterator-edit-at-end", "itr-insert"],
        "assumptions": [
            "elements are non-NULL pointers owned by the harness; iterators are used get -> edit -> next and released with the allocator's free when abandoned (there is no iterator free API)",
            "after an iterator removal the next call on that iterator is next()",
            "destructor behaviour for an element overwritten through itr_set_data is not prescribed (0 or 1 calls accepted)",
            "position chosen by m_list_insert is not prescribed (multiset + relative order of the others is)",
        ],
    },
}

HOOK_COMMITS = []
NOT_APPLICABLE = {}
ENGINES = [
    {"name": "A-structs", "path": "harness/structs", "serves_properties": ["C05", "C10", "C11", "C12"],
     "kind_free_text": "in-process model-based rapidcheck tests (+ bounded-exhaustive enumeration) of containers and ref-counted memory against C++ reference models, ASan/UBSan build"},
]
META = {
    "C12": {
        "engine": "A-structs", "design_ref": "DESIGN.md section 3 (C12)",
        "technique": "bounded-exhaustive operation-sequence enumeration + rapidcheck stateful model-based testing against std::vector models",
        "level_text": "Exhaustive over all op sequences up to length 5 (quick) / 6 (thorough) of a fixed alphabet for queue, stack and list, plus random sequences up to 80 ops; every step compared with an array model, destructor log and allocator balance. Establishes the property for the explored sequences only.",
        "level_note": "Trusts the C++ reference model, the read-back through m_*_iterate (cross-checked by len/peek/dequeue), clang ASan/UBSan; spec corners listed in DESIGN.md 8.2 are not judged.",
    },
}
