// C14 (a) — modules are thread-confined: every public module call attempted from a foreign thread
// (holding another context or none) must fail without effect.  Deterministic hand-off between two threads.
#include <sys/types.h>
#include <pthread.h>
#include <semaphore.h>
#include <fcntl.h>
#include <unistd.h>
#include <errno.h>
#include <signal.h>
#include "../common/rcmain.hpp"
#include "../common/caseio.hpp"
#include "../common/gens.hpp"
extern "C" {
#include <module/mod.h>
#include <module/ctx.h>
}

enum Call {
    K_START = 0, K_PAUSE, K_RESUME, K_STOP, K_DEREG, K_FD_REG, K_FD_DEREG, K_TMR_REG, K_TMR_DEREG, K_SGN_REG, K_SGN_DEREG, K_PATH_REG, K_PATH_DEREG,
    K_PID_REG, K_PID_DEREG, K_TASK_REG, K_THRESH_REG, K_THRESH_DEREG, K_SUB, K_UNSUB, K_TELL_SELF, K_PUBLISH, K_BCAST, K_PILL_SELF,
    K_BECOME, K_UNBECOME, K_UNSTASH, K_BATCH_SIZE, K_BATCH_TIMEOUT, K_SET_TB, K_LOG, K_DUMP, K_STATS, K_SRC_LEN, K_LOOKUP, K_BIND,
    K_TELL_CROSS, K_PILL_CROSS, K_NCALLS
};
static const char *call_names[K_NCALLS] = {
    "start", "pause", "resume", "stop", "deregister", "fd_register", "fd_deregister", "tmr_register", "tmr_deregister", "sgn_register", "sgn_deregister", "path_register", "path_deregister",
    "pid_register", "pid_deregister", "task_register", "thresh_register", "thresh_deregister", "subscribe", "unsubscribe", "tell(self)", "publish", "broadcast", "poisonpill(self)",
    "become", "unbecome", "unstash", "set_batch_size", "set_batch_timeout", "set_tokenbucket", "log", "dump", "stats", "src_len", "lookup", "bind",
    "tell(foreign module -> this module)", "poisonpill(foreign module -> this module)"};

struct Case { int state = 0; /* 0 idle 1 running 2 paused 3 stopped */ int bkind = 0; /* 0: B has no context, 1: B has its own context and module */ int park = 0; /* 1: the owner thread waits INSIDE the module's own event handler while B calls (state 1 only) */ std::vector<int> calls; };

static std::string to_text(const Case &c) {
    std::ostringstream o; o << "foreign1\nstate " << c.state << "\nbkind " << c.bkind << "\npark " << c.park << "\nop calls"; for (int x : c.calls) o << " " << x; o << "\n"; return o.str();
}
static bool from_text(const std::string &s, Case &c) {
    cio::Text t; if (!cio::parse(s, t) || t.magic != "foreign1") return false;
    c = Case(); c.state = cio::hdr_long(t, "state", 0); c.bkind = cio::hdr_long(t, "bkind", 0); c.park = cio::hdr_long(t, "park", 0);
    for (auto &o : t.ops) if (o.first == "calls") c.calls.assign(o.second.begin(), o.second.end());
    return true;
}
void showValue(const Case &c, std::ostream &os) { os << to_text(c); }

// ---- scenario ----
static rt::Verdict v;
static sem_t to_b, to_a;
static m_mod_t *am, *am2;           // A's modules
static int a_pipe[2];
static int a_events, a_foreign_events;
static const Case *g_case;
static int payload_own = 1, payload_foreign = 2;
static int task_ran;

static int a_evt_one(void *up, void *data) {
    (void)up;
    m_evt_t *e = (m_evt_t *)data;
    a_events++;
    if (e->type == M_SRC_TYPE_PS && !e->ps_evt->system && e->ps_evt->data != &payload_own) a_foreign_events++;
    if (e->type == M_SRC_TYPE_FD) { char c; if (read(e->fd_evt->fd, &c, 1) != 1) {} }
    return 0;
}
static bool park_pending; static void park_in_callback();
static void a_evt(m_mod_t *self, const m_queue_t *const evts) { (void)self; m_queue_iterate(evts, a_evt_one, nullptr); if (park_pending && self == am) { park_pending = false; park_in_callback(); } }
static void b_evt(m_mod_t *self, const m_queue_t *const evts) { (void)self; (void)evts; }
static void other_evt(m_mod_t *self, const m_queue_t *const evts) { (void)self; (void)evts; }
static int task_fn(void *p) { (void)p; task_ran++; return 7; }
static void quiet_logger(const m_mod_t *m, const char *fmt, va_list args) { (void)m; (void)fmt; (void)args; }

static void expect_refused(const char *what, long r) {
    // any module operation from a foreign thread fails; the statement calls it a permission error
    if (r >= 0) v.fail("C14.1", std::string(what) + " issued from a foreign thread returned " + std::to_string(r) + " (must be refused)");
    else if (r != -EPERM && r != -EINVAL && r != -EACCES && r != -EPIPE) v.fail("C14.1", std::string(what) + " from a foreign thread failed with unexpected code " + std::to_string(r));
}

static void do_calls(m_mod_t *bm);
static sem_t task_done;
// kind 3: the calls are issued by a thread of the library's own task pool (from inside a task function of module A): that thread does not own
// A's context either
static int calls_task_fn(void *p) { (void)p; do_calls(nullptr); sem_post(&task_done); return 0; }

static void *thread_b(void *) {
    sem_wait(&to_b);
    m_mod_t *bm = nullptr;
    if (g_case->bkind == 1 || g_case->bkind == 2) {
        if (m_ctx_register("ctxB", (m_ctx_flags)0, nullptr) != 0) v.fail("C14.H", "B could not register its own context");
        m_mod_hook_t hk = {nullptr, nullptr, b_evt, nullptr};
        // kind 2: B's own module carries the same name as A's module (names are per context; identity is what counts)
        if (m_mod_register(g_case->bkind == 2 ? "amod" : "bmod", &bm, &hk, (m_mod_flags)0, nullptr) != 0 || m_mod_start(bm) != 0) v.fail("C14.H", "B could not set up its own module");
        m_ctx_set_logger(quiet_logger);
    }
    do_calls(bm);
    if (bm) { m_mod_deregister(&bm); m_ctx_deregister(); }
    sem_post(&to_a);
    return nullptr;
}

static void do_calls(m_mod_t *bm) {
    static m_src_tmr_t tmr_new = {CLOCK_MONOTONIC, 7000000}, tmr_old = {CLOCK_MONOTONIC, 50000000};
    static m_src_sgn_t sgn_new = {SIGUSR2}, sgn_old = {SIGUSR1};
    static m_src_path_t path_new = {"/tmp", 2}, path_old = {"/", 2};
    static m_src_pid_t pid_new = {1, 0}, pid_old = {2, 0};
    static m_src_task_t task_new = {5, task_fn};
    static m_src_thresh_t thr_new = {100000, 0}, thr_old = {200000, 0};
    for (int call : g_case->calls) {
        if (!v.ok) break;
        const char *nm = call_names[call];
        switch (call) {
        case K_START: expect_refused(nm, m_mod_start(am)); break;
        case K_PAUSE: expect_refused(nm, m_mod_pause(am)); break;
        case K_RESUME: expect_refused(nm, m_mod_resume(am)); break;
        case K_STOP: expect_refused(nm, m_mod_stop(am)); break;
        case K_DEREG: { m_mod_t *copy = am; expect_refused(nm, m_mod_deregister(&copy)); if (copy != am) v.fail("C14.2", "refused deregister changed the caller's reference"); break; }
        case K_FD_REG: expect_refused(nm, m_mod_src_register_fd(am, a_pipe[1], (m_src_flags)0, nullptr)); break;
        case K_FD_DEREG: expect_refused(nm, m_mod_src_deregister_fd(am, a_pipe[0])); break;
        case K_TMR_REG: expect_refused(nm, m_mod_src_register_tmr(am, &tmr_new, (m_src_flags)0, nullptr)); break;
        case K_TMR_DEREG: expect_refused(nm, m_mod_src_deregister_tmr(am, &tmr_old)); break;
        case K_SGN_REG: expect_refused(nm, m_mod_src_register_sgn(am, &sgn_new, (m_src_flags)0, nullptr)); break;
        case K_SGN_DEREG: expect_refused(nm, m_mod_src_deregister_sgn(am, &sgn_old)); break;
        case K_PATH_REG: expect_refused(nm, m_mod_src_register_path(am, &path_new, (m_src_flags)0, nullptr)); break;
        case K_PATH_DEREG: expect_refused(nm, m_mod_src_deregister_path(am, &path_old)); break;
        case K_PID_REG: expect_refused(nm, m_mod_src_register_pid(am, &pid_new, (m_src_flags)0, nullptr)); break;
        case K_PID_DEREG: expect_refused(nm, m_mod_src_deregister_pid(am, &pid_old)); break;
        case K_TASK_REG: expect_refused(nm, m_mod_src_register_task(am, &task_new, (m_src_flags)0, nullptr)); break;
        case K_THRESH_REG: expect_refused(nm, m_mod_src_register_thresh(am, &thr_new, (m_src_flags)0, nullptr)); break;
        case K_THRESH_DEREG: expect_refused(nm, m_mod_src_deregister_thresh(am, &thr_old)); break;
        case K_SUB: expect_refused(nm, m_mod_ps_subscribe(am, "other", (m_src_flags)0, nullptr)); break;
        case K_UNSUB: expect_refused(nm, m_mod_ps_unsubscribe(am, "topic")); break;
        case K_TELL_SELF: expect_refused(nm, m_mod_ps_tell(am, am, &payload_foreign, (m_ps_flags)0)); break;
        case K_PUBLISH: expect_refused(nm, m_mod_ps_publish(am, "topic", &payload_foreign, (m_ps_flags)0)); break;
        case K_BCAST: expect_refused(nm, m_mod_ps_publish(am, nullptr, &payload_foreign, (m_ps_flags)0)); break;
        case K_PILL_SELF: expect_refused(nm, m_mod_ps_poisonpill(am, am)); break;
        case K_BECOME: expect_refused(nm, m_mod_become(am, other_evt)); break;
        case K_UNBECOME: expect_refused(nm, m_mod_unbecome(am)); break;
        case K_UNSTASH: expect_refused(nm, m_mod_unstash(am, 3)); break;
        case K_BATCH_SIZE: expect_refused(nm, m_mod_set_batch_size(am, 4)); break;
        case K_BATCH_TIMEOUT: expect_refused(nm, m_mod_set_batch_timeout(am, 1000000)); break;
        case K_SET_TB: expect_refused(nm, m_mod_set_tokenbucket(am, 1, 1)); break;
        case K_LOG: expect_refused(nm, m_mod_log(am, "x")); break;
        case K_DUMP: expect_refused(nm, m_mod_dump(am)); break;
        case K_STATS: { m_mod_stats_t st; expect_refused(nm, m_mod_stats(am, &st)); break; }
        case K_SRC_LEN: expect_refused(nm, m_mod_src_len(am, M_SRC_TYPE_END)); break;
        case K_LOOKUP: if (m_mod_lookup(am, "amod2") != nullptr) v.fail("C14.1", "m_mod_lookup through a foreign module handed out a module"); break;
        case K_BIND: expect_refused(nm, m_mod_bind(am, am2)); break;
        case K_TELL_CROSS: if (bm) expect_refused(nm, m_mod_ps_tell(bm, am, &payload_foreign, (m_ps_flags)0)); break;
        case K_PILL_CROSS: if (bm) expect_refused(nm, m_mod_ps_poisonpill(bm, am)); break;
        default: break;
        }
        // plain getters keep answering
        if (m_mod_name(am) == nullptr || strcmp(m_mod_name(am), "amod") != 0) v.fail("C14.4", "m_mod_name does not answer from a foreign thread");
        if (m_mod_userdata(am) != (void *)&a_events) v.fail("C14.4", "m_mod_userdata does not answer from a foreign thread");
    }
}

static ssize_t len_before[M_SRC_TYPE_END + 1]; static m_mod_stats_t st0; static int want_state;
static void snapshot() { for (int k = 0; k <= M_SRC_TYPE_END; k++) len_before[k] = m_mod_src_len(am, (m_src_types)k); m_mod_stats(am, &st0); }
static void compare_with_snapshot(const char *where) {
    if (!v.ok) return;
    if ((int)m_mod_state(am) != want_state) v.fail("C14.2", std::string(where) + ": module state changed to " + std::to_string(m_mod_state(am)) + " by a foreign call");
    for (int k = 0; k <= M_SRC_TYPE_END && v.ok; k++) { ssize_t n = m_mod_src_len(am, (m_src_types)k); if (n != len_before[k]) v.fail("C14.2", std::string(where) + ": source count of kind " + std::to_string(k) + " changed from " + std::to_string(len_before[k]) + " to " + std::to_string(n) + " by a foreign call"); }
    m_mod_stats_t st1; m_mod_stats(am, &st1);
    if (st1.sent_msgs != st0.sent_msgs || st1.recv_msgs != st0.recv_msgs) v.fail("C14.2", std::string(where) + ": message counters changed by a foreign call");
    if (m_ctx_len() != 2) v.fail("C14.2", std::string(where) + ": context lost or gained modules through a foreign call");
    if (task_ran) v.fail("C14.2", std::string(where) + ": a task registered from a foreign thread ran");
}
// the owner thread is inside the module's own callback while the foreign thread performs its calls (still strictly sequential)
static void park_in_callback() { snapshot(); sem_post(&to_b); sem_wait(&to_a); compare_with_snapshot("inside the module's handler"); }

static rt::Verdict run_case(const Case &c, const rt::Args &) {
    v = rt::Verdict(); g_case = &c; a_events = a_foreign_events = 0; task_ran = 0;
    sem_init(&to_b, 0, 0); sem_init(&to_a, 0, 0);
    if (pipe2(a_pipe, O_NONBLOCK) != 0) { v.fail("C14.H", "pipe"); return v; }
    static m_src_tmr_t tmr_old = {CLOCK_MONOTONIC, 50000000};
    static m_src_thresh_t thr_old = {200000, 0};
    if (m_ctx_register("ctxA", M_CTX_PERSIST, nullptr) != 0) { v.fail("C14.H", "ctx register"); return v; }
    m_ctx_set_logger(quiet_logger);
    m_mod_hook_t hk = {nullptr, nullptr, a_evt, nullptr};
    int r = m_mod_register("amod", &am, &hk, (m_mod_flags)0, &a_events);
    r |= m_mod_register("amod2", &am2, &hk, (m_mod_flags)0, nullptr);
    if (r != 0) { v.fail("C14.H", "module register"); return v; }
    auto setup_sources = [&]() {
        int q = 0;
        q |= m_mod_ps_subscribe(am, "topic", (m_src_flags)0, nullptr);
        q |= m_mod_src_register_fd(am, a_pipe[0], (m_src_flags)0, nullptr);
        q |= m_mod_src_register_tmr(am, &tmr_old, (m_src_flags)0, nullptr);
        q |= m_mod_src_register_thresh(am, &thr_old, (m_src_flags)0, nullptr);
        return q;
    };
    want_state = M_MOD_IDLE;
    if (c.state == 0) { r = setup_sources(); }
    else if (c.state == 1) { r = m_mod_start(am) | setup_sources(); want_state = M_MOD_RUNNING; }
    else if (c.state == 2) { r = m_mod_start(am) | setup_sources() | m_mod_pause(am); want_state = M_MOD_PAUSED; }
    else { r = m_mod_start(am) | m_mod_stop(am) | setup_sources(); want_state = M_MOD_STOPPED; }
    if (r != 0) { v.fail("C14.H", "setting up module A failed (" + std::to_string(r) + ")"); return v; }
    const bool park = c.park && c.state == 1;
    if (c.bkind == 3) {
        // only a RUNNING module gets its task started; for the other states this kind degenerates to "no context" (kind 0)
        if (c.state == 1 && !c.park) {
            sem_init(&task_done, 0, 0);
            static m_src_task_t tk = {77, calls_task_fn};
            if (m_mod_src_register_task(am, &tk, (m_src_flags)0, nullptr) != 0) { v.fail("C14.H", "could not register the task source"); return v; }
            snapshot();                 // (the task source itself is part of the snapshot)
            sem_wait(&task_done);       // the pool thread performed its calls
            compare_with_snapshot("after calls made from a task function (pool thread)");
            // let the library consume the task's completion before anything else happens
            m_ctx_dispatch(); for (int i = 0; i < 6; i++) { struct timespec ts = {0, 2000000}; nanosleep(&ts, nullptr); m_ctx_dispatch(); }
            m_ctx_quit(0); m_ctx_dispatch();
            v.classes.push_back("calls-from-task-pool-thread");
            goto behaviour;
        }
    }
    {
    pthread_t tb; pthread_create(&tb, nullptr, thread_b, nullptr);
    if (!park) {
        snapshot();
        sem_post(&to_b);  // A parks while B performs its calls: strictly sequential
        sem_wait(&to_a);
        compare_with_snapshot("after the foreign calls");
    } else {
        // A sends itself a message and runs the loop: B performs its calls while A sits in the handler of that very module
        park_pending = true;
        m_mod_ps_tell(am, am, &payload_own, (m_ps_flags)0);
        m_ctx_dispatch();
        for (int i = 0; i < 4 && park_pending; i++) m_ctx_dispatch();
        if (park_pending) { park_pending = false; v.fail("C14.H", "the module's handler never ran"); sem_post(&to_b); sem_wait(&to_a); }
        m_ctx_quit(0); m_ctx_dispatch();
        if (v.ok && (int)m_mod_state(am) != want_state) v.fail("C14.2", "module state changed to " + std::to_string(m_mod_state(am)) + " by a foreign call");
    }
    pthread_join(tb, nullptr);
    }
behaviour:
    // behaviour check: bring A to RUNNING, publish once, run the loop: exactly the own message arrives, with the original handler
    if (v.ok) {
        if (want_state == M_MOD_PAUSED) m_mod_resume(am);
        else if (want_state != M_MOD_RUNNING) { m_mod_start(am); if (want_state == M_MOD_STOPPED) m_mod_ps_subscribe(am, "topic", (m_src_flags)0, nullptr); }
        a_events = 0;
        m_mod_ps_publish(am, "topic", &payload_own, (m_ps_flags)0);
        m_ctx_dispatch();
        for (int i = 0; i < 6; i++) m_ctx_dispatch();
        // (judged before the loop stops: the flush at loop stop hands over whatever a changed batching setting held back)
        if (a_events < 1) v.fail("C14.2", "after foreign calls the module's own published message is not handed to it while the loop runs (subscription, handler or batching changed by a refused foreign call)");
        m_ctx_quit(0); m_ctx_dispatch();
        if (a_foreign_events) v.fail("C14.3", "a message sent from a foreign thread was delivered");
        if (a_events < 1) v.fail("C14.2", "after foreign calls the module no longer receives its own published message (subscription, handler or batching changed)");
    }
    m_mod_deregister(&am); m_mod_deregister(&am2); m_ctx_deregister();
    close(a_pipe[0]); close(a_pipe[1]);
    v.nontrivial = true;
    v.classes.push_back("state=" + std::to_string(c.state)); if (c.park && c.state == 1) v.classes.push_back("owner-inside-own-callback"); v.classes.push_back(c.bkind == 3 ? "B-task-pool-thread" : c.bkind == 2 ? "B-own-ctx-same-module-name" : c.bkind ? "B-own-ctx" : "B-no-ctx");
    for (int call : c.calls) v.classes.push_back(std::string("call:") + call_names[call]);
    return v;
}

static bool exhaustive(const rt::Args &args, rt::Stats &stats, rt::Failure &failure) {
    uint64_t idx = 0, total = 0;
    for (int state = 0; state < 5; state++) for (int bkind = 0; bkind < 4; bkind++) for (int call = 0; call < K_NCALLS; call++) {
        if ((idx++ % args.nshards) != (uint64_t)args.shard) continue;
        Case c; c.state = state == 4 ? 1 : state; c.park = state == 4; c.bkind = bkind; c.calls = {call};
        rt::Verdict vv = rt::run_forked(args.prop, [&] { return run_case(c, args); });
        total++; stats.record(to_text(c), vv);
        if (!vv.ok) { failure.present = true; failure.rule = vv.rule; failure.message = vv.message; failure.text = to_text(c); return false; }
    }
    stats.exhaustive = true;
    stats.exhaustive_note = "every (module state [idle, running, paused, stopped, running with the owner thread inside the module's own handler] x foreign thread kind x public module call) combination: 5 x 4 (no context, own context, own context with a same-named module, a thread of the task pool running a task of the module) x " + std::to_string((int)K_NCALLS);
    stats.counters["matrix_cells"] = total;
    return true;
}

static rc::Gen<Case> gen_case(const rt::Args &) {
    using namespace rc;
    return gen::map(gen::tuple(gens::range(0, 5), gens::range(0, 4), gens::vec<int>(1, 8, gens::range<int>(0, (int)K_NCALLS))), [](std::tuple<int, int, std::vector<int>> t) {
        Case c; c.state = std::get<0>(t) == 4 ? 1 : std::get<0>(t); c.park = std::get<0>(t) == 4; c.bkind = std::get<1>(t); c.calls = std::get<2>(t); return c; });
}

int main(int argc, char **argv) {
    rcm::Engine<Case> E;
    E.rule_text = "foreign-thread matrix: thread A owns a context with a module in a generated state (idle/running/paused/stopped) holding a subscription, a descriptor, a timer and a threshold source; thread B (no context / own context and module / own context with a module of the same name as A's) performs, strictly sequentially, every public module call on A's handle (exhaustive 4 x 3 x 38 single-call matrix, then random sequences of 1-8 calls). Oracle: each call fails (negative / NULL), plain getters answer, and A's state, per-kind source counts, counters, context size and later pub/sub behaviour are unchanged. Every case is non-trivial (distinct = distinct case text).";
    E.gen = gen_case; E.eval = run_case; E.to_text = to_text; E.from_text = from_text;
    E.default_cases = [](const rt::Args &a) { return a.tier == "thorough" ? 3000L : 120L; };
    E.exhaustive = exhaustive;
    E.fork_eval = true;
    return rcm::run(argc, argv, E);
}
