// C14 (b) — contexts on different threads are independent: K threads each run their own context with a
// generated message-passing program concurrently (blocking m_ctx_loop), under ThreadSanitizer.
// Oracles: no ThreadSanitizer report; each context's observable trace equals the trace of the same program run alone.
#include <sys/types.h>
#include <pthread.h>
#include <sched.h>
#include <unistd.h>
#include "../common/rcmain.hpp"
#include "../common/caseio.hpp"
#include "../common/gens.hpp"
extern "C" {
#include <module/mod.h>
#include <module/ctx.h>
}

extern "C" const char *__tsan_default_options() { return "halt_on_error=1:exitcode=66:report_signal_unsafe=0"; }

struct CtxCfg { int nmods = 2; int rounds = 5; int pub_every = 3; int regex = 0; int yields = 0; int task = 0; };
struct Case { std::vector<CtxCfg> ctxs; };

static std::string to_text(const Case &c) {
    std::ostringstream o; o << "ctxrace1\n";
    for (auto &x : c.ctxs) o << "op ctx " << x.nmods << " " << x.rounds << " " << x.pub_every << " " << x.regex << " " << x.yields << " " << x.task << "\n";
    return o.str();
}
static bool from_text(const std::string &s, Case &c) {
    cio::Text t; if (!cio::parse(s, t) || t.magic != "ctxrace1") return false;
    c = Case();
    for (auto &o : t.ops) if (o.first == "ctx" && o.second.size() >= 6) { CtxCfg x; x.nmods = (int)o.second[0]; x.rounds = (int)o.second[1]; x.pub_every = (int)o.second[2]; x.regex = (int)o.second[3]; x.yields = (int)o.second[4]; x.task = (int)o.second[5]; c.ctxs.push_back(x); }
    return !c.ctxs.empty();
}
void showValue(const Case &c, std::ostream &os) { os << to_text(c); }

// ---- per-thread program ----
struct Run;
struct ModData { Run *run; int idx; m_mod_t *self; };
struct Run {
    CtxCfg cfg; int id;
    ModData md[4];
    long cells[64];                 // payload cells: value = round number
    std::vector<long> trace;        // (module, kind, value) triples flattened, per context
    int loop_ret = -1000; int task_done = 0; int task_ret = -1; bool setup_ok = true;
    double t_in = 0, t_out = 0;
    pthread_barrier_t *bar = nullptr; // concurrent runs: all loops start together
};
static void yield_some(int n) { for (int i = 0; i < n; i++) sched_yield(); }

static int one_evt(void *up, void *data) {
    ModData *d = (ModData *)up; Run *r = d->run;
    m_evt_t *e = (m_evt_t *)data;
    if (e->type == M_SRC_TYPE_TASK) { r->task_done++; r->task_ret = e->task_evt->retval; return 0; } // completion time relative to messages is scheduling dependent
    if (e->type != M_SRC_TYPE_PS || e->ps_evt->system) return 0;
    long val = *(const long *)e->ps_evt->data;
    r->trace.push_back(d->idx); r->trace.push_back(e->ps_evt->topic ? 1 : 0); r->trace.push_back(val);
    if (e->ps_evt->topic) return 0; // published event: only recorded
    yield_some(r->cfg.yields);
    if (val >= r->cfg.rounds) { m_ctx_quit((uint8_t)(val & 0x7f)); return 0; }
    long next = val + 1;
    r->cells[next % 64] = next;
    m_mod_ps_tell(d->self, r->md[(d->idx + 1) % r->cfg.nmods].self, &r->cells[next % 64], (m_ps_flags)0);
    if (r->cfg.pub_every && next % r->cfg.pub_every == 0) {
        static const char *topics[] = {"ev0", "ev1", "ev2"};
        m_mod_ps_publish(d->self, topics[next % 3], &r->cells[next % 64], (m_ps_flags)0);
    }
    return 0;
}
static void on_evt(m_mod_t *self, const m_queue_t *const evts) { m_queue_iterate(evts, one_evt, (void *)m_mod_userdata(self)); }
static bool on_start(m_mod_t *self) {
    ModData *d = (ModData *)m_mod_userdata(self); Run *r = d->run;
    d->self = self;
    if (r->cfg.regex) m_mod_ps_subscribe(self, d->idx % 2 ? "ev[0-9]" : "ev1", (m_src_flags)0, nullptr);
    else m_mod_ps_subscribe(self, d->idx % 2 ? "ev0" : "ev2", (m_src_flags)0, nullptr);
    return true;
}
static int task_fn(void *p) { long s = 0; for (int i = 0; i < 20000; i++) s += i; return (int)(s % 97) + (int)(long)p; }
static void quiet_logger(const m_mod_t *m, const char *fmt, va_list args) { (void)m; (void)fmt; (void)args; }

static void run_ctx(Run *r) {
    char name[16]; snprintf(name, sizeof name, "ctx%d", r->id);
    if (m_ctx_register(name, (m_ctx_flags)(M_CTX_NAME_DUP | M_CTX_PERSIST), nullptr) != 0) { r->setup_ok = false; if (r->bar) pthread_barrier_wait(r->bar); return; }
    m_ctx_set_logger(quiet_logger);
    m_mod_hook_t hk = {on_start, nullptr, on_evt, nullptr};
    for (int i = 0; i < r->cfg.nmods; i++) {
        r->md[i].run = r; r->md[i].idx = i; r->md[i].self = nullptr;
        char mn[16]; snprintf(mn, sizeof mn, "m%d", i);
        m_mod_t *h = nullptr;
        if (m_mod_register(mn, &h, &hk, M_MOD_NAME_DUP, &r->md[i]) != 0) { r->setup_ok = false; if (r->bar) pthread_barrier_wait(r->bar); return; }
        r->md[i].self = h;
        if (m_mod_start(h) != 0) r->setup_ok = false;
    }
    static m_src_task_t tk = {3, task_fn};
    if (r->cfg.task) m_mod_src_register_task(r->md[0].self, &tk, (m_src_flags)0, (void *)(long)r->id);
    r->cells[1] = 1;
    m_mod_ps_tell(r->md[0].self, r->md[r->cfg.nmods > 1 ? 1 : 0].self, &r->cells[1], (m_ps_flags)0);
    if (r->bar) pthread_barrier_wait(r->bar);
    r->t_in = rt::now_s();
    r->loop_ret = m_ctx_loop();
    r->t_out = rt::now_s();
    for (int i = 0; i < r->cfg.nmods; i++) { m_mod_t *h = r->md[i].self; m_mod_deregister(&h); }
    m_ctx_deregister();
}
static void *thread_main(void *p) { run_ctx((Run *)p); return nullptr; }

static rt::Verdict run_case(const Case &c, const rt::Args &) {
    rt::Verdict v;
    size_t K = c.ctxs.size();
    std::vector<Run> solo1(K), solo2(K), conc(K);
    for (size_t i = 0; i < K; i++) { solo1[i].cfg = solo2[i].cfg = conc[i].cfg = c.ctxs[i]; solo1[i].id = solo2[i].id = conc[i].id = (int)i; }
    // In half of the cases the concurrent run comes first: anything the library creates lazily on first use (and would share between
    // contexts) is then first touched by several threads at once, not by the sequential reference runs.
    const bool conc_first = (c.ctxs[0].rounds + c.ctxs[0].yields + (int)K) % 2 == 0;
    auto run_concurrent = [&]() {
        pthread_barrier_t bar; pthread_barrier_init(&bar, nullptr, (unsigned)K);
        for (size_t i = 0; i < K; i++) conc[i].bar = &bar;
        std::vector<pthread_t> th(K);
        for (size_t i = 0; i < K; i++) pthread_create(&th[i], nullptr, thread_main, &conc[i]);
        for (size_t i = 0; i < K; i++) pthread_join(th[i], nullptr);
    };
    if (conc_first) { run_concurrent(); v.classes.push_back("concurrent-run-first"); }
    // reference: each program alone (twice: a program whose solo runs differ is not a usable reference)
    for (size_t i = 0; i < K; i++) { pthread_t t; pthread_create(&t, nullptr, thread_main, &solo1[i]); pthread_join(t, nullptr); }
    for (size_t i = 0; i < K; i++) { pthread_t t; pthread_create(&t, nullptr, thread_main, &solo2[i]); pthread_join(t, nullptr); }
    bool stable = true;
    for (size_t i = 0; i < K; i++) if (solo1[i].trace != solo2[i].trace || solo1[i].loop_ret != solo2[i].loop_ret || !solo1[i].setup_ok) stable = false;
    if (!stable) { v.inconclusive = true; v.classes.push_back("unstable-solo-reference"); return v; }
    if (!conc_first) run_concurrent();
    bool overlap = false;
    for (size_t i = 0; i < K; i++) {
        if (!conc[i].setup_ok) { v.fail("C14.5", "context " + std::to_string(i) + " could not be set up while other contexts were active"); break; }
        if (conc[i].loop_ret != solo1[i].loop_ret) { v.fail("C14.5", "loop of context " + std::to_string(i) + " returned " + std::to_string(conc[i].loop_ret) + " when run next to other contexts, " + std::to_string(solo1[i].loop_ret) + " alone"); break; }
        if (conc[i].trace != solo1[i].trace) { v.fail("C14.5", "context " + std::to_string(i) + " observed a different delivery sequence (" + std::to_string(conc[i].trace.size() / 3) + " vs " + std::to_string(solo1[i].trace.size() / 3) + " events) when other contexts ran concurrently"); break; }
        if (conc[i].cfg.task && (conc[i].task_done > 1 || (conc[i].task_done == 1 && conc[i].task_ret != solo1[i].task_ret && solo1[i].task_done == 1))) { v.fail("C14.5", "task source of context " + std::to_string(i) + " misbehaved next to other contexts"); break; }
        for (size_t j = 0; j < i; j++) if (conc[i].t_in < conc[j].t_out && conc[j].t_in < conc[i].t_out) overlap = true;
    }
    v.nontrivial = overlap;
    if (overlap) v.classes.push_back("loops-overlapped");
    v.classes.push_back("K=" + std::to_string(K));
    return v;
}

static rc::Gen<Case> gen_case(const rt::Args &) {
    using namespace rc;
    auto cfg = gen::map(gen::tuple(gens::range(1, 4), gens::range(20, 300), gens::range(0, 4), gens::range(0, 2), gens::range(0, 4), gens::weighted_values<int>({{1, 0}, {2, 1}})), [](std::tuple<int, int, int, int, int, int> t) {
        CtxCfg x; x.nmods = std::get<0>(t); x.rounds = std::get<1>(t); x.pub_every = std::get<2>(t); x.regex = std::get<3>(t); x.yields = std::get<4>(t); x.task = std::get<5>(t); return x; });
    return gen::map(gens::vec<CtxCfg>(2, 4, cfg), [](std::vector<CtxCfg> v) { Case c; c.ctxs = v; return c; });
}

int main(int argc, char **argv) {
    rcm::Engine<Case> E;
    E.rule_text = "independence stage: 2-4 threads, each registering its own context with 1-3 modules running a generated token-passing program (tell ring of 2-40 rounds, publishes on literal/regex subscriptions, optional task source, generated sched_yield delays) inside a blocking m_ctx_loop, first alone (twice) then all concurrently, ThreadSanitizer build, one forked child per case. Oracles: no ThreadSanitizer report (any unsynchronised shared library state); per-context delivery sequence and loop result identical to the solo run. Non-trivial = at least two loops overlapped in time (measured).";
    E.gen = gen_case; E.eval = run_case; E.to_text = to_text; E.from_text = from_text;
    E.default_cases = [](const rt::Args &a) { return a.tier == "thorough" ? 1500L : 40L; };
    E.fork_eval = true;
    E.post = [](rt::Verdict &v) { if (!v.ok && v.message.find("ThreadSanitizer") != std::string::npos) v.rule = "C14.RACE"; };
    return rcm::run(argc, argv, E);
}
