// C06 — thread pool under a harness-owned schedule (controlled runs) .
#include <sys/types.h>
extern "C" {
#include <module/thpool/thpool.h>
}
#include "../common/rcmain.hpp"
#include "../common/caseio.hpp"
#include "../common/gens.hpp"
#include "../common/track.hpp"
#include "sched.hpp"

struct SubOp { int code; }; // 0 add, 1 length, 2 clear
struct Case {
    int threads = 2;      // pool size
    int flags = 0;        // bit0 LAZY, bit1 DETACHED
    int wait_all = 1;
    int spurious = 0;     // percent of scheduling points that try a spurious wake-up
    int backlog = 0;      // > 0: the freeing thread first submits a task that stays in progress until the freeing thread waits inside m_thpool_free, then this many more tasks: a deep queue at shutdown
    int prior = -1;       // >= 0: flags of a one-thread pool that lives (one task, free with wait_all) in the same process before the pool under test
    std::vector<std::vector<int>> subs; // per submitter: op codes
    std::vector<int> main_ops;          // ops by the freeing thread before free (1 length, 2 clear, 0 add)
    std::vector<unsigned char> choices;
};

static std::string to_text(const Case &c) {
    std::ostringstream o;
    o << "pool1\nthreads " << c.threads << "\nflags " << c.flags << "\nwait_all " << c.wait_all << "\nspurious " << c.spurious << "\n"; if (c.prior >= 0) o << "prior " << c.prior << "\n"; if (c.backlog) o << "backlog " << c.backlog << "\n";
    for (auto &s : c.subs) { o << "op sub"; for (int x : s) o << " " << x; o << "\n"; }
    o << "op main"; for (int x : c.main_ops) o << " " << x; o << "\n";
    o << "op choices"; for (unsigned char x : c.choices) o << " " << (int)x; o << "\n";
    return o.str();
}
static bool from_text(const std::string &s, Case &c) {
    cio::Text t;
    if (!cio::parse(s, t) || t.magic != "pool1") return false;
    c = Case();
    c.threads = cio::hdr_long(t, "threads", 2); c.flags = cio::hdr_long(t, "flags", 0); c.wait_all = cio::hdr_long(t, "wait_all", 1); c.spurious = cio::hdr_long(t, "spurious", 0); c.prior = cio::hdr_long(t, "prior", -1); c.backlog = cio::hdr_long(t, "backlog", 0);
    for (auto &o : t.ops) {
        if (o.first == "sub") { std::vector<int> v(o.second.begin(), o.second.end()); c.subs.push_back(v); }
        else if (o.first == "main") c.main_ops.assign(o.second.begin(), o.second.end());
        else if (o.first == "choices") for (long x : o.second) c.choices.push_back((unsigned char)x);
    }
    return true;
}
void showValue(const Case &c, std::ostream &os) { os << to_text(c); }

// ---- scenario state (child process) ----
struct Cell { int id; int begun, ended; bool accepted, exempt, submitted; };
static Cell cells[64];
static int ncells;
static int in_progress, max_in_progress, pool_threads;
static m_thpool_t *pool;
static const Case *g_case;
static rt::Verdict g_v;
static bool free_returned;
static int begun_at_free[64], ended_at_free[64];
static int clear_calls_returned;

static bool free_called, shutdown_waiting, backlog_submitted; static int gate_cell = -1, pre_cell = -1;
static void *task(void *arg) {
    Cell *c = (Cell *)arg;
    if (c < cells || c >= cells + 64 || c->id != (int)(c - cells)) { g_v.fail("C06.1", "task received an argument that is not the one it was submitted with"); return nullptr; }
    c->begun++;
    if (c->begun > 1) g_v.fail("C06.1", "task " + std::to_string(c->id) + " executed more than once");
    if (!c->accepted) { /* accepted flag is set when add returns; a task may start before that */ }
    in_progress++;
    if (in_progress > max_in_progress) max_in_progress = in_progress;
    if (in_progress > pool_threads) g_v.fail("C06.2", std::to_string(in_progress) + " tasks in progress at once in a pool of " + std::to_string(pool_threads) + " threads");
    if (free_returned && begun_at_free[c->id] == 0 && !g_case->wait_all) g_v.fail("C06.4", "task " + std::to_string(c->id) + " had not started when m_thpool_free(wait_all=false) returned, yet it ran afterwards");
    // once the freeing thread waits inside m_thpool_free(wait_all=false) the shutdown has been requested: only tasks already in progress may go on
    if (shutdown_waiting && !g_case->wait_all && !free_returned) g_v.fail("C06.4", "task " + std::to_string(c->id) + " was started after m_thpool_free(wait_all=false) had requested the shutdown and was waiting for the task in progress: tasks that had not started must be discarded");
    sched::yield_point("tb");
    if (c->id == pre_cell) { long spins = 0; while (!backlog_submitted && ++spins < 20000) sched::yield_point("tp"); } // keeps the (only) worker busy until the whole backlog is queued
    if (c->id == gate_cell) {
        // the gate task stays in progress until the freeing thread is parked inside m_thpool_free
        long spins = 0;
        while (!(free_called && sched::main_waiting()) && ++spins < 20000) sched::yield_point("tg");
        if (free_called && sched::main_waiting()) shutdown_waiting = true;
    }
    sched::yield_point("tm");
    c->ended++;
    in_progress--;
    sched::yield_point("te");
    return nullptr;
}

struct SubArg { int idx; std::vector<std::pair<int, int>> ops; }; // (code, task id)
static void do_sub_ops(const std::vector<std::pair<int, int>> &ops) {
    for (auto &op : ops) {
        if (op.first == 0) {
            cells[op.second].submitted = true;
            int r = m_thpool_add(pool, task, &cells[op.second]);
            cells[op.second].accepted = (r == 0);
            if (r != 0) g_v.fail("C06.8", "m_thpool_add returned " + std::to_string(r) + " on a live pool");
        } else if (op.first == 1) {
            ssize_t n = m_thpool_length(pool);
            if (n < 0) g_v.fail("C06.8", "m_thpool_length returned " + std::to_string(n) + " on a live pool");
        } else {
            m_thpool_clear(pool);
            // whatever was accepted by now may have been removed from the queue: exempt from the "must run" obligation
            for (int i = 0; i < ncells; i++) if (cells[i].submitted && !cells[i].begun) cells[i].exempt = true;
            clear_calls_returned++;
        }
        sched::yield_point("so");
    }
}
static void *submitter(void *p) { do_sub_ops(((SubArg *)p)->ops); return nullptr; }
static int warm_runs;
static void *warm_task(void *arg) { (void)arg; sched::yield_point("wb"); warm_runs++; sched::yield_point("we"); return nullptr; }

static void finish(const char *stuck) {
    sched::Result &R = sched::result();
    rt::Verdict v = g_v;
    if (v.ok && !R.rule.empty()) v.fail(R.rule, R.message);
    if (v.ok && stuck) {
        if (R.inconclusive) v.inconclusive = true;
        else v.fail("C06.6", std::string("deadlock: no thread can make progress (") + stuck + "); unfinished:" + sched::blocked_threads());
    }
    if (!v.ok) v.message += "\n--- schedule ---\n" + R.trace.substr(0, 1500);
    v.nontrivial = R.preemptions > 0;
    v.classes.push_back("flags=" + std::to_string(g_case->flags)); if (g_case->prior >= 0) v.classes.push_back("earlier-pool-flags=" + std::to_string(g_case->prior));
    v.classes.push_back(g_case->wait_all ? "wait_all" : "wait_curr");
    if (R.spurious) v.classes.push_back("spurious-wakeup");
    if (R.preemptions) v.classes.push_back("preempted");
    if (clear_calls_returned) v.classes.push_back("clear-used");
    if (g_case->backlog) v.classes.push_back(shutdown_waiting ? "deep-backlog-at-shutdown" : "deep-backlog");
    // distinctness of schedules: encode the executed trace hash into a class-free channel (message for ok cases)
    if (v.ok) { char b[32]; snprintf(b, sizeof b, "%016llx", (unsigned long long)R.trace_hash); v.message = b; }
    rt::child_finish(v);
}
static void stuck_hook(const char *why) { finish(why); }

static rt::Verdict run_case(const Case &c, const rt::Args &) {
    g_case = &c; g_v = rt::Verdict();
    track::install();
    memset(cells, 0, sizeof cells); for (int i = 0; i < 64; i++) cells[i].id = i;
    ncells = 0; in_progress = max_in_progress = 0; free_returned = false; clear_calls_returned = 0;
    pool_threads = c.threads;
    sched::on_stuck = stuck_hook;
    // assign task ids up front (program order per thread)
    std::vector<SubArg> subs(c.subs.size());
    for (size_t s = 0; s < c.subs.size(); s++) { subs[s].idx = (int)s; for (int code : c.subs[s]) { int id = -1; if (code == 0 && ncells < (c.backlog ? 4 : 60)) id = ncells++; if (code != 0 || id >= 0) subs[s].ops.push_back({code, id}); } }
    std::vector<std::pair<int, int>> main_ops;
    for (int code : c.main_ops) { int id = -1; if (code == 0 && ncells < (c.backlog ? 5 : 60)) id = ncells++; if (code != 0 || id >= 0) main_ops.push_back({code, id}); }

    sched::start(c.choices, c.spurious);
    int warm_workers = 0;
    if (c.prior >= 0) {
        // an earlier pool of another flavour in the same process: pools must not share state (what it leaves behind must not leak into the next one)
        warm_runs = 0;
        int pf = ((c.prior & 1) ? M_THPOOL_LAZY : 0) | ((c.prior & 2) ? M_THPOOL_DETACHED : 0);
        m_thpool_t *wp = m_thpool_new(1, (m_thpool_flags)pf);
        if (!wp || m_thpool_add(wp, warm_task, nullptr) != 0) { g_v.fail("C06.8", "could not set up the earlier pool"); finish(nullptr); }
        int wr = m_thpool_free(&wp, true);
        if (wr != 0 || wp) g_v.fail("C06.8", "m_thpool_free of the earlier pool returned " + std::to_string(wr));
        if (warm_runs != 1) g_v.fail("C06.3", "m_thpool_free(wait_all=true) of the earlier pool returned although its task had run " + std::to_string(warm_runs) + " times");
        warm_workers = sched::result().workers_created;
    }
    int fl = ((c.flags & 1) ? M_THPOOL_LAZY : 0) | ((c.flags & 2) ? M_THPOOL_DETACHED : 0);
    pool = m_thpool_new((uint8_t)c.threads, (m_thpool_flags)fl);
    if (!pool) { g_v.fail("C06.8", "m_thpool_new returned NULL"); finish(nullptr); }
    free_called = shutdown_waiting = backlog_submitted = false; gate_cell = pre_cell = -1;
    if (c.backlog > 0) {
        std::vector<std::pair<int, int>> pre;
        pre_cell = ncells; pre.push_back({0, ncells++});
        gate_cell = ncells; pre.push_back({0, ncells++});
        for (int i = 0; i < c.backlog && ncells < 62; i++) pre.push_back({0, ncells++});
        do_sub_ops(pre);
        backlog_submitted = true;
    }
    std::vector<int> ids;
    for (auto &s : subs) ids.push_back(sched::spawn_thread(submitter, &s, sched::ROLE_SUBMITTER));
    for (int id : ids) sched::join_thread(id);   // the freeing thread frees only after every submitter returned from its calls
    do_sub_ops(main_ops);
    free_called = true;
    int r = m_thpool_free(&pool, c.wait_all != 0);
    free_returned = true;
    for (int i = 0; i < ncells; i++) { begun_at_free[i] = cells[i].begun; ended_at_free[i] = cells[i].ended; }
    if (r != 0 || pool) g_v.fail("C06.8", "m_thpool_free returned " + std::to_string(r) + " or left the handle set");
    if (sched::result().workers_created - warm_workers > c.threads) g_v.fail("C06.2", std::to_string(sched::result().workers_created - warm_workers) + " worker threads created for a pool of " + std::to_string(c.threads));
    for (int i = 0; i < ncells && g_v.ok; i++) {
        if (!cells[i].accepted) continue;
        if (c.wait_all) {
            if (!cells[i].exempt && cells[i].ended != 1) g_v.fail("C06.3", "m_thpool_free(wait_all=true) returned although accepted task " + std::to_string(i) + " has " + (cells[i].begun ? "not finished" : "not run"));
        }
        if (cells[i].begun > cells[i].ended) g_v.fail(c.wait_all ? "C06.3" : "C06.4", "m_thpool_free returned while task " + std::to_string(i) + " is still in progress");
    }
    // keep going until every thread has finished or is blocked for good: late executions and touches of the dead pool show up here
    sched::run_to_quiescence();
    for (int i = 0; i < ncells && g_v.ok; i++) {
        if (cells[i].begun > 1) g_v.fail("C06.1", "task " + std::to_string(i) + " executed " + std::to_string(cells[i].begun) + " times");
        if (cells[i].begun != cells[i].ended) g_v.fail("C06.4", "task " + std::to_string(i) + " started but never completed");
    }
    if (g_v.ok && !sched::others_finished())
        g_v.fail("C06.5", "after m_thpool_free returned these pool threads are still alive and blocked on pool objects:" + sched::blocked_threads());
    if (g_v.ok && !track::st().error.empty()) g_v.fail("C06.5", track::st().error);
    if (g_v.ok && track::live_count() != 0 && sched::others_finished()) g_v.fail("C06.9", std::to_string(track::live_count()) + " pool allocations outstanding after free");
    sched::stop();
    finish(nullptr);
    return g_v;
}

static rc::Gen<Case> gen_case(const rt::Args &) {
    using namespace rc;
    auto subops = gens::vec<int>(0, 4, gens::weighted_values<int>({{8, 0}, {1, 1}, {1, 2}}));
    return gen::map(gen::tuple(gens::range(1, 5), gen::map(gen::pair(gens::range(0, 4), gens::weighted_values<int>({{6, -1}, {1, 0}, {1, 1}, {2, 2}, {1, 3}})), [](std::pair<int, int> p) { return p.first + 8 * (p.second + 1); }), gen::map(gen::pair(gens::range(0, 2), gens::weighted_values<int>({{12, 0}, {1, 33}, {1, 40}, {1, 56}})), [](std::pair<int, int> p) { return p.first + 2 * p.second; }), gens::weighted_values<int>({{3, 0}, {2, 5}, {1, 20}}),
                               gens::vec<std::vector<int>>(1, 3, subops), gens::vec<int>(0, 2, gens::weighted_values<int>({{3, 0}, {1, 1}, {1, 2}})),
                               gen::resize(100, gen::container<std::vector<unsigned char>>(gen::arbitrary<unsigned char>()))),
                    [](std::tuple<int, int, int, int, std::vector<std::vector<int>>, std::vector<int>, std::vector<unsigned char>> t) {
                        Case c; c.threads = std::get<0>(t); c.flags = std::get<1>(t) % 8; c.prior = std::get<1>(t) / 8 - 1; c.wait_all = std::get<2>(t) % 2; c.backlog = std::get<2>(t) / 2; if (c.backlog) c.threads = 1; c.spurious = std::get<3>(t);
                        c.subs = std::get<4>(t); c.main_ops = std::get<5>(t); c.choices = std::get<6>(t);
                        if (c.choices.size() > 300) c.choices.resize(300);
                        return c;
                    });
}

int main(int argc, char **argv) {
    rcm::Engine<Case> E;
    E.rule_text = "controlled runs: (pool size 1-4) x (eager, lazy, detached, lazy+detached) x (1-3 submitting threads with 0-4 add/length/clear calls each, plus calls by the freeing thread) x wait_all x a generated schedule (<= 300 choices, then fair round-robin; optional spurious wake-ups) executed by a cooperative scheduler interposed on pthread create/join/mutex/cond calls, one forked child per schedule. Verdicts: exactly-once with own argument, concurrency and worker bound, shutdown contract at the moment free returns, nothing runs / touches pool objects after free, deadlock, primitive misuse, ASan. Non-trivial = at least one pre-emption between threads of different roles; distinct = distinct case text (executed (thread,op) hashes are recorded).";
    E.gen = gen_case;
    E.eval = run_case;
    E.to_text = to_text;
    E.from_text = from_text;
    E.default_cases = [](const rt::Args &a) { return a.tier == "thorough" ? 60000L : 4000L; };
    E.fork_eval = true;
    return rcm::run(argc, argv, E);
}
