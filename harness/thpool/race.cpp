// C06 — race freedom of the thread pool under real concurrency (ThreadSanitizer build, one forked child per case).
#include <sys/types.h>
#include <sched.h>
#include <pthread.h>
extern "C" {
#include <module/thpool/thpool.h>
}
#include "../common/rcmain.hpp"
#include "../common/caseio.hpp"
#include "../common/gens.hpp"

extern "C" const char *__tsan_default_options() { return "halt_on_error=1:exitcode=66:report_signal_unsafe=0:second_deadlock_stack=1"; }

struct Case { int threads = 2, flags = 0, wait_all = 1; std::vector<std::vector<int>> subs; /* per submitter: spin counts before each add; negative = length(), -1000 = clear() */ int task_spin = 0; };

static std::string to_text(const Case &c) {
    std::ostringstream o;
    o << "race1\nthreads " << c.threads << "\nflags " << c.flags << "\nwait_all " << c.wait_all << "\ntask_spin " << c.task_spin << "\n";
    for (auto &s : c.subs) { o << "op sub"; for (int x : s) o << " " << x; o << "\n"; }
    return o.str();
}
static bool from_text(const std::string &s, Case &c) {
    cio::Text t; if (!cio::parse(s, t) || t.magic != "race1") return false;
    c = Case(); c.threads = cio::hdr_long(t, "threads", 2); c.flags = cio::hdr_long(t, "flags", 0); c.wait_all = cio::hdr_long(t, "wait_all", 1); c.task_spin = cio::hdr_long(t, "task_spin", 0);
    for (auto &o : t.ops) if (o.first == "sub") c.subs.push_back(std::vector<int>(o.second.begin(), o.second.end()));
    return true;
}
void showValue(const Case &c, std::ostream &os) { os << to_text(c); }

struct Cell { int runs; int spin; };
static Cell cells[256];
static m_thpool_t *pool;
static void spin(int n) { volatile int sink = 0; for (int i = 0; i < n * 50; i++) sink += i; if (n % 3 == 0) sched_yield(); }
static void *task(void *arg) { Cell *c = (Cell *)arg; c->runs++; spin(c->spin); return nullptr; }
struct Sub { std::vector<int> ops; int base; int accepted[64]; int n; };
static void *submitter(void *p) {
    Sub *s = (Sub *)p; s->n = 0;
    for (int x : s->ops) {
        if (x == -1000) m_thpool_clear(pool);
        else if (x < 0) m_thpool_length(pool);
        else { spin(x); int id = s->base + s->n; s->accepted[s->n] = m_thpool_add(pool, task, &cells[id]) == 0; s->n++; }
    }
    return nullptr;
}

static rt::Verdict run_case(const Case &c, const rt::Args &) {
    rt::Verdict v;
    memset(cells, 0, sizeof cells);
    for (auto &cell : cells) cell.spin = c.task_spin;
    int fl = ((c.flags & 1) ? M_THPOOL_LAZY : 0) | ((c.flags & 2) ? M_THPOOL_DETACHED : 0);
    pool = m_thpool_new((uint8_t)c.threads, (m_thpool_flags)fl);
    if (!pool) { v.fail("C06.8", "m_thpool_new returned NULL"); return v; }
    std::vector<Sub> subs(c.subs.size());
    std::vector<pthread_t> th(c.subs.size());
    bool cleared = false;
    for (size_t i = 0; i < subs.size(); i++) { subs[i].ops = c.subs[i]; subs[i].base = (int)i * 64; for (int x : c.subs[i]) if (x == -1000) cleared = true; if (subs[i].ops.size() > 60) subs[i].ops.resize(60); }
    for (size_t i = 0; i < subs.size(); i++) pthread_create(&th[i], nullptr, submitter, &subs[i]);
    for (size_t i = 0; i < subs.size(); i++) pthread_join(th[i], nullptr);
    m_thpool_free(&pool, c.wait_all != 0);
    // after free returned nothing may run any more: give stragglers a chance to show up, then read the cells
    for (int i = 0; i < 20; i++) sched_yield();
    for (size_t i = 0; i < subs.size() && v.ok; i++)
        for (int k = 0; k < subs[i].n && v.ok; k++) {
            int runs = cells[subs[i].base + k].runs;
            if (runs > 1) v.fail("C06.1", "task executed " + std::to_string(runs) + " times");
            if (c.wait_all && !cleared && subs[i].accepted[k] && runs != 1) v.fail("C06.3", "m_thpool_free(wait_all=true) returned although an accepted task ran " + std::to_string(runs) + " times");
        }
    v.nontrivial = subs.size() >= 2 || c.threads >= 2;
    v.classes.push_back("flags=" + std::to_string(c.flags));
    return v;
}

static rc::Gen<Case> gen_case(const rt::Args &) {
    using namespace rc;
    auto ops = gens::vec<int>(0, 8, gens::weighted_values<int>({{4, 0}, {3, 1}, {2, 3}, {1, 9}, {1, -1}, {1, -1000}}));
    return gen::map(gen::tuple(gens::range(1, 5), gens::range(0, 4), gens::range(0, 2), gens::vec<std::vector<int>>(1, 4, ops), gens::range(0, 6)),
                    [](std::tuple<int, int, int, std::vector<std::vector<int>>, int> t) {
                        Case c; c.threads = std::get<0>(t); c.flags = std::get<1>(t); c.wait_all = std::get<2>(t); c.subs = std::get<3>(t); c.task_spin = std::get<4>(t); return c; });
}

int main(int argc, char **argv) {
    rcm::Engine<Case> E;
    E.rule_text = "race stage: generated (pool size, flavour, 1-4 real submitting threads with add/length/clear calls and generated spin delays, task duration, wait_all) run with real threads against the ThreadSanitizer build, one forked child per case; a ThreadSanitizer report (child exit) or a wrong execution count is a violation. Non-trivial = at least two threads (submitters or workers) involved.";
    E.gen = gen_case; E.eval = run_case; E.to_text = to_text; E.from_text = from_text;
    E.default_cases = [](const rt::Args &a) { return a.tier == "thorough" ? 4000L : 150L; };
    E.fork_eval = true;
    E.post = [](rt::Verdict &v) { if (!v.ok && v.message.find("ThreadSanitizer") != std::string::npos) v.rule = "C06.RACE"; };
    return rcm::run(argc, argv, E);
}
