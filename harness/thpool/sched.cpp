// Engine C — cooperative scheduler under the thread pool.
// The pool's pthread calls are redirected here at link time (-Wl,--wrap=...): threads are real, but exactly one
// holds the run token; every wrapped call is a scheduling point where the next thread is picked from the
// generated choice sequence.  Mutexes and condition variables are modelled, so misuse, deadlock and operations
// on destroyed objects become verdicts instead of undefined behaviour.
#include <semaphore.h>
#include <sys/types.h>
#include <errno.h>
#include <cstring>
#include <cstdio>
#include <cstdlib>
#include <map>
#include <unistd.h>
#include "sched.hpp"

extern "C" {
int __real_pthread_create(pthread_t *, const pthread_attr_t *, void *(*)(void *), void *);
int __real_pthread_join(pthread_t, void **);
int __real_pthread_mutex_init(pthread_mutex_t *, const pthread_mutexattr_t *);
int __real_pthread_mutex_lock(pthread_mutex_t *);
int __real_pthread_mutex_unlock(pthread_mutex_t *);
int __real_pthread_mutex_destroy(pthread_mutex_t *);
int __real_pthread_cond_init(pthread_cond_t *, const pthread_condattr_t *);
int __real_pthread_cond_wait(pthread_cond_t *, pthread_mutex_t *);
int __real_pthread_cond_signal(pthread_cond_t *);
int __real_pthread_cond_broadcast(pthread_cond_t *);
int __real_pthread_cond_destroy(pthread_cond_t *);
int __real_pthread_attr_setdetachstate(pthread_attr_t *, int);
}

namespace sched {

enum St { RUNNABLE, BLOCKED_MUTEX, BLOCKED_COND, BLOCKED_JOIN, PARKED, FINISHED };

struct Thr {
    int id = 0; pthread_t real; St st = RUNNABLE; const void *wait_obj = nullptr; int wait_thr = -1;
    sem_t sem; void *(*fn)(void *) = nullptr; void *arg = nullptr; bool detached = false; bool joined = false; int role = 0;
};
struct Mtx { int owner = -1; bool inited = false, destroyed = false; };
struct Cnd { std::vector<int> waiters; bool inited = false, destroyed = false; };

static bool g_active = false;
static std::vector<Thr *> thr;
static std::map<const void *, Mtx> mtx;
static std::map<const void *, Cnd> cnd;
static std::map<const void *, bool> attr_detached;
static int cur = -1;
static std::vector<unsigned char> choices; static size_t cpos = 0;
static int spurious_rate = 0;
static Result res;
void (*on_stuck)(const char *why) = nullptr;

Result &result() { return res; }
bool active() { return g_active; }
int current() { return cur; }
int role_of(int t) { return t >= 0 && t < (int)thr.size() ? thr[t]->role : -1; }
void fail(const std::string &rule, const std::string &msg) { if (res.rule.empty()) { res.rule = rule; res.message = msg; } }

static unsigned next_choice(unsigned n) {
    if (n <= 1) return 0;
    if (cpos < choices.size()) return choices[cpos++] % n;
    static unsigned rr = 0; return (rr++) % n; // fair round-robin once the generated schedule is used up
}

static bool enabled(Thr *t) {
    switch (t->st) {
    case RUNNABLE: return true;
    case BLOCKED_MUTEX: return mtx[t->wait_obj].owner == -1 || mtx[t->wait_obj].destroyed;
    case BLOCKED_JOIN: return thr[t->wait_thr]->st == FINISHED;
    default: return false;
    }
}

static void record_step(int t, const char *op) {
    res.steps++;
    res.trace_hash = (res.trace_hash ^ (uint64_t)(t * 131 + op[0] * 7 + op[1])) * 1099511628211ULL;
    if (res.trace.size() < 4000) { char b[48]; snprintf(b, sizeof b, "%d:%s ", t, op); res.trace += b; }
}

std::string blocked_threads() {
    std::string who;
    static const char *names[] = {"runnable", "blocked on mutex", "waiting on condition", "joining", "parked", "finished"};
    for (auto *t : thr) if (t->st != FINISHED && t->id != 0) { char b[96]; snprintf(b, sizeof b, " t%d(role %s: %s)", t->id, t->role == ROLE_WORKER ? "worker" : "submitter", names[t->st]); who += b; }
    return who;
}
// is the main thread parked in a wait that only other threads can end (condition wait or join)?
bool main_waiting() { return !thr.empty() && (thr[0]->st == BLOCKED_COND || thr[0]->st == BLOCKED_JOIN); }
bool others_finished() { for (auto *t : thr) if (t->id != 0 && t->st != FINISHED) return false; return true; }

// hand the run token to the next thread; returns when the calling thread owns it again
static void reschedule(bool self_still_enabled) {
    if (res.steps > 100000) { res.inconclusive = true; on_stuck("step budget exceeded"); }
    if (spurious_rate && cpos < choices.size() && (unsigned)(choices[cpos] % 100) < (unsigned)spurious_rate) {
        std::vector<std::pair<Cnd *, size_t>> w;
        for (auto &kv : cnd) for (size_t i = 0; i < kv.second.waiters.size(); i++) w.push_back({&kv.second, i});
        if (!w.empty()) {
            auto pick = w[next_choice((unsigned)w.size())];
            int id = pick.first->waiters[pick.second];
            pick.first->waiters.erase(pick.first->waiters.begin() + pick.second);
            thr[id]->st = BLOCKED_MUTEX; // a spurious wake-up: it re-acquires the mutex and re-checks its predicate
            res.spurious++;
        }
    }
    std::vector<Thr *> en;
    for (auto *t : thr) if (enabled(t)) en.push_back(t);
    Thr *me = thr[cur];
    Thr *next;
    if (en.empty()) {
        Thr *parked = nullptr; for (auto *t : thr) if (t->st == PARKED) parked = t;
        if (!parked) { on_stuck("deadlock"); _exit(3); }
        parked->st = RUNNABLE; next = parked;
    } else next = en[next_choice((unsigned)en.size())];
    if (self_still_enabled && next != me && me->role != next->role) res.preemptions++;
    if (next == me) return;
    cur = next->id;
    sem_post(&next->sem);
    sem_wait(&me->sem);
}

static void sched_point(const char *op) { record_step(cur, op); reschedule(true); }
static void block_until_enabled(Thr *me) { while (!enabled(me)) reschedule(false); }

static void *trampoline(void *p) {
    Thr *t = (Thr *)p;
    sem_wait(&t->sem);
    void *r = t->fn(t->arg);
    record_step(t->id, "end");
    t->st = FINISHED;
    reschedule(false); // never returns to a finished thread
    return r;
}

static int spawn(void *(*fn)(void *), void *arg, int role, bool detached, pthread_t *out) {
    Thr *t = new Thr();
    t->id = (int)thr.size(); t->fn = fn; t->arg = arg; t->role = role; t->detached = detached;
    sem_init(&t->sem, 0, 0);
    thr.push_back(t);
    pthread_attr_t a; pthread_attr_init(&a);
    __real_pthread_attr_setdetachstate(&a, PTHREAD_CREATE_DETACHED); // reaped by process exit; "join" is modelled
    int r = __real_pthread_create(&t->real, &a, trampoline, t);
    pthread_attr_destroy(&a);
    if (out) *out = t->real;
    if (role == ROLE_WORKER) res.workers_created++;
    return r == 0 ? t->id : -1;
}
int spawn_thread(void *(*fn)(void *), void *arg, int role) { int id = spawn(fn, arg, role, false, nullptr); sched_point("spawn"); return id; }

void join_thread(int id) {
    Thr *me = thr[cur];
    record_step(cur, "join");
    me->st = BLOCKED_JOIN; me->wait_thr = id;
    block_until_enabled(me);
    me->st = RUNNABLE;
}

void yield_point(const char *what) { if (g_active) sched_point(what); }

void start(const std::vector<unsigned char> &ch, int spurious_percent) {
    thr.clear(); mtx.clear(); cnd.clear(); attr_detached.clear();
    choices = ch; cpos = 0; spurious_rate = spurious_percent;
    res = Result();
    Thr *t0 = new Thr(); t0->id = 0; t0->real = pthread_self(); t0->role = ROLE_MAIN; sem_init(&t0->sem, 0, 0);
    thr.push_back(t0); cur = 0;
    g_active = true;
}
void stop() { g_active = false; }

void run_to_quiescence() {
    Thr *me = thr[cur];
    record_step(cur, "park");
    me->st = PARKED;
    reschedule(false); // comes back when nobody else can run
    me->st = RUNNABLE;
}

} // namespace sched

using namespace sched;

extern "C" {

int __wrap_pthread_attr_setdetachstate(pthread_attr_t *a, int st) {
    if (g_active) attr_detached[a] = (st == PTHREAD_CREATE_DETACHED);
    return __real_pthread_attr_setdetachstate(a, st);
}

int __wrap_pthread_create(pthread_t *th, const pthread_attr_t *attr, void *(*fn)(void *), void *arg) {
    if (!g_active) return __real_pthread_create(th, attr, fn, arg);
    // ask the attribute object itself (a map keyed by its address would go stale: attribute objects live on the stack and are re-initialised)
    bool det = false; if (attr) { int st = PTHREAD_CREATE_JOINABLE; if (pthread_attr_getdetachstate(attr, &st) == 0) det = st == PTHREAD_CREATE_DETACHED; }
    int id = spawn(fn, arg, ROLE_WORKER, det, th);
    sched_point("create");
    return id >= 0 ? 0 : EAGAIN;
}

int __wrap_pthread_join(pthread_t th, void **ret) {
    if (!g_active) return __real_pthread_join(th, ret);
    int id = -1; for (auto *t : thr) if (t->id != 0 && pthread_equal(t->real, th)) id = t->id;
    if (id < 0) { fail("C06.7", "pthread_join on an unknown thread"); return ESRCH; }
    if (thr[id]->joined) { fail("C06.7", "thread joined twice"); return EINVAL; }
    if (thr[id]->detached) { fail("C06.7", "pthread_join on a detached thread"); return EINVAL; }
    join_thread(id);
    thr[id]->joined = true;
    return 0;
}

int __wrap_pthread_mutex_init(pthread_mutex_t *m, const pthread_mutexattr_t *a) {
    if (!g_active) return __real_pthread_mutex_init(m, a);
    Mtx &x = mtx[m]; x = Mtx(); x.inited = true;
    return 0;
}
int __wrap_pthread_mutex_lock(pthread_mutex_t *m) {
    if (!g_active) return __real_pthread_mutex_lock(m);
    if (mtx[m].destroyed) { fail("C06.5", "thread t" + std::to_string(cur) + " locks the pool mutex after it was destroyed"); return EINVAL; }
    if (!mtx[m].inited) { fail("C06.7", "lock of a mutex that was never initialised"); return EINVAL; }
    sched_point("lock");
    Thr *me = thr[cur];
    if (mtx[m].destroyed) { fail("C06.5", "thread t" + std::to_string(cur) + " locks the pool mutex after it was destroyed"); return EINVAL; }
    if (mtx[m].owner == me->id) { fail("C06.7", "thread locks a mutex it already owns"); on_stuck("self deadlock"); }
    if (mtx[m].owner != -1) { me->st = BLOCKED_MUTEX; me->wait_obj = m; block_until_enabled(me); me->st = RUNNABLE; }
    if (mtx[m].destroyed) { fail("C06.5", "pool mutex destroyed while thread t" + std::to_string(cur) + " was blocked on it"); return EINVAL; }
    mtx[m].owner = me->id;
    return 0;
}
int __wrap_pthread_mutex_unlock(pthread_mutex_t *m) {
    if (!g_active) return __real_pthread_mutex_unlock(m);
    Mtx &x = mtx[m];
    if (x.destroyed) { fail("C06.5", "thread t" + std::to_string(cur) + " unlocks the pool mutex after it was destroyed"); return EINVAL; }
    if (x.owner != cur) { fail("C06.7", "mutex unlocked by t" + std::to_string(cur) + " which does not own it (owner t" + std::to_string(x.owner) + ")"); return EPERM; }
    x.owner = -1;
    sched_point("unlock");
    return 0;
}
int __wrap_pthread_mutex_destroy(pthread_mutex_t *m) {
    if (!g_active) return __real_pthread_mutex_destroy(m);
    Mtx &x = mtx[m];
    if (x.owner != -1) fail("C06.7", "mutex destroyed while locked by t" + std::to_string(x.owner));
    for (auto *t : thr) if (t->st == BLOCKED_MUTEX && t->wait_obj == m) fail("C06.5", "pool mutex destroyed while t" + std::to_string(t->id) + " still has to acquire it");
    x.destroyed = true;
    sched_point("mdestroy");
    return 0;
}
int __wrap_pthread_cond_init(pthread_cond_t *c, const pthread_condattr_t *a) {
    if (!g_active) return __real_pthread_cond_init(c, a);
    Cnd &x = cnd[c]; x = Cnd(); x.inited = true;
    return 0;
}
int __wrap_pthread_cond_wait(pthread_cond_t *c, pthread_mutex_t *m) {
    if (!g_active) return __real_pthread_cond_wait(c, m);
    if (cnd[c].destroyed || mtx[m].destroyed) { fail("C06.5", "thread t" + std::to_string(cur) + " waits on the pool condition after it was destroyed"); return EINVAL; }
    if (mtx[m].owner != cur) { fail("C06.7", "cond_wait without owning the mutex"); return EPERM; }
    Thr *me = thr[cur];
    mtx[m].owner = -1;
    cnd[c].waiters.push_back(me->id);
    me->st = BLOCKED_COND; me->wait_obj = m;
    record_step(cur, "wait");
    block_until_enabled(me); // signalled / spuriously woken -> BLOCKED_MUTEX -> enabled once the mutex is free
    me->st = RUNNABLE;
    // a woken waiter no longer uses the condition (destroying it then is legal); it does need the mutex
    if (mtx[m].destroyed) { fail("C06.5", "pool mutex destroyed while t" + std::to_string(cur) + " still had to re-acquire it after waiting on the pool condition"); return EINVAL; }
    mtx[m].owner = me->id;
    return 0;
}
static void wake(Cnd &x, size_t idx) { int id = x.waiters[idx]; x.waiters.erase(x.waiters.begin() + idx); thr[id]->st = BLOCKED_MUTEX; }
int __wrap_pthread_cond_signal(pthread_cond_t *c) {
    if (!g_active) return __real_pthread_cond_signal(c);
    Cnd &x = cnd[c];
    if (x.destroyed) { fail("C06.5", "signal on the pool condition after it was destroyed"); return EINVAL; }
    if (!x.waiters.empty()) wake(x, next_choice((unsigned)x.waiters.size()));
    sched_point("signal");
    return 0;
}
int __wrap_pthread_cond_broadcast(pthread_cond_t *c) {
    if (!g_active) return __real_pthread_cond_broadcast(c);
    Cnd &x = cnd[c];
    if (x.destroyed) { fail("C06.5", "broadcast on the pool condition after it was destroyed"); return EINVAL; }
    while (!x.waiters.empty()) wake(x, 0);
    sched_point("bcast");
    return 0;
}
int __wrap_pthread_cond_destroy(pthread_cond_t *c) {
    if (!g_active) return __real_pthread_cond_destroy(c);
    Cnd &x = cnd[c];
    if (!x.waiters.empty()) fail("C06.5", "pool condition destroyed while " + std::to_string(x.waiters.size()) + " thread(s) still wait on it");
    x.destroyed = true;
    sched_point("cdestroy");
    return 0;
}

} // extern "C"
