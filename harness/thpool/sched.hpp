// Engine C — cooperative scheduler interface (see sched.cpp).
#pragma once
#include <pthread.h>
#include <cstdint>
#include <string>
#include <vector>

namespace sched {

enum { ROLE_MAIN = 0, ROLE_SUBMITTER = 1, ROLE_WORKER = 2 };

struct Result {
    std::string rule, message;          // first verdict raised by the scheduler itself (misuse, destroyed object, deadlock)
    std::string trace;                  // "<thread>:<op> ..." of the executed schedule
    uint64_t trace_hash = 1469598103934665603ULL;
    long preemptions = 0;               // a still-enabled thread lost the token to a thread of another role
    long spurious = 0;                  // spurious wake-ups injected
    long workers_created = 0;
    long steps = 0;
    bool inconclusive = false;          // step budget exceeded
};

Result &result();
void fail(const std::string &rule, const std::string &msg);
void start(const std::vector<unsigned char> &choices, int spurious_percent);
void stop();
bool active();
int current();
int role_of(int thread);
// create a scheduled thread running fn(arg); returns its scheduler id
int spawn_thread(void *(*fn)(void *), void *arg, int role);
void join_thread(int id);
void yield_point(const char *what);    // explicit scheduling point (inside harness tasks / submitters)
void run_to_quiescence();               // main thread: let everybody else run until nobody can
std::string blocked_threads();          // description of unfinished threads (after quiescence)
bool others_finished();
bool main_waiting();                    // the main thread is blocked in a condition wait or a join
extern void (*on_stuck)(const char *why); // called when nothing can run any more or the step budget is exceeded; must not return

} // namespace sched
