// Small rapidcheck generator helpers.
#pragma once
#include <rapidcheck.h>
#include <vector>
#include <memory>

namespace gens {

// integer in [lo, hi) that does not collapse at small sizes
template <class T>
inline rc::Gen<T> range(T lo, T hi) { return rc::gen::resize(100, rc::gen::inRange<T>(lo, hi)); }

// weighted choice between generators given as a vector; shrinks towards the first entry
template <class T>
inline rc::Gen<T> weighted(std::vector<std::pair<size_t, rc::Gen<T>>> w) {
    auto tab = std::make_shared<std::vector<std::pair<size_t, rc::Gen<T>>>>();
    size_t total = 0;
    for (auto &p : w) if (p.first > 0) { total += p.first; tab->push_back({total, p.second}); }
    return rc::gen::mapcat(range<size_t>(0, total), [tab](size_t r) {
        for (auto &p : *tab) if (r < p.first) return p.second;
        return tab->back().second;
    });
}

template <class T>
inline rc::Gen<T> weighted_values(std::vector<std::pair<size_t, T>> w) {
    std::vector<std::pair<size_t, rc::Gen<T>>> g;
    for (auto &p : w) g.push_back({p.first, rc::gen::just(p.second)});
    return weighted<T>(g);
}

// vector with explicitly bounded length
template <class T>
inline rc::Gen<std::vector<T>> vec(size_t lo, size_t hi, rc::Gen<T> g) {
    return rc::gen::mapcat(rc::gen::inRange<size_t>(lo, hi + 1), [g](size_t n) { return rc::gen::container<std::vector<T>>(n, g); });
}

} // namespace gens
