// Tracking allocator installed through the library's public m_set_memhook().
// Keeps ptr -> {size, serial}; detects double free / free of unknown pointers before the
// real allocator sees them; lets a harness watch "payload" pointers whose release is part
// of an oracle.
#pragma once
#include <cstddef>
#include <cstdint>
#include <cstdlib>
#include <cstring>
#include <string>
#include <unordered_map>
#include <functional>
#include <mutex>
#include <sys/mman.h>
#include <pthread.h>
#include <sched.h>
#include <atomic>
#include <cerrno>

extern "C" int m_set_memhook(void *(*_malloc)(size_t), void *(*_calloc)(size_t, size_t), void (*_free)(void *));

namespace track {

struct Info { size_t size; uint64_t serial; };

struct State {
    std::unordered_map<void *, Info> live;
    uint64_t serial = 0;
    uint64_t n_alloc = 0, n_free = 0;
    std::string error;                       // first allocator misuse seen
    std::function<void(void *)> on_free;     // called for every free of a live pointer (before release)
    bool misaligned = false;                 // hand out 16- but not 32-byte aligned blocks
    long fail_at = -1;                       // allocation index that returns NULL (-1: never)
    bool fail_next_malloc = false;           // the next malloc-hook call (not calloc) is refused once: injected allocator fault
    long fail_countdown = 0;                 // > 0: the fail_countdown-th allocation from now on made by thread fail_thread is refused once (errno = ENOMEM, as malloc does)
    pthread_t fail_thread;
    bool fail_fired = false;
    void *last_alloc = nullptr;              // most recent pointer handed out
    size_t last_alloc_size = 0;
    std::unordered_map<void *, size_t> huge;  // mmap-backed allocations
};

inline State &st() { static State s; return s; }
// the library calls the memhook from its task pool threads as well (a finished task's record is released by the worker): one lock for the table
// (a recursive spin lock on an atomic owner word, not a pthread mutex: in the thread pool harness the pthread mutex calls of the whole binary are interposed by
// the cooperative scheduler, which must not see -- or judge -- the harness' own locks; holders never reach a scheduling point while inside the allocator)
struct SpinLock {
    std::atomic<unsigned long> owner{0}; int depth = 0;
    void lock() { const unsigned long me = (unsigned long)pthread_self(); if (owner.load(std::memory_order_relaxed) == me) { depth++; return; } unsigned long none = 0; while (!owner.compare_exchange_weak(none, me, std::memory_order_acquire)) { none = 0; sched_yield(); } depth = 1; }
    void unlock() { if (--depth == 0) owner.store(0, std::memory_order_release); }
};
inline SpinLock &mtx() { static SpinLock m; return m; }

inline void *raw_alloc(size_t sz, bool zero) {
    std::lock_guard<SpinLock> lk(mtx());
    State &s = st();
    if (s.fail_at >= 0 && (long)s.n_alloc == s.fail_at) { s.n_alloc++; return nullptr; }
    if (s.fail_countdown > 0 && pthread_equal(s.fail_thread, pthread_self()) && --s.fail_countdown == 0) { s.fail_fired = true; errno = ENOMEM; return nullptr; }
    void *p;
    if (sz >= ((size_t)1 << 30)) {
        // huge requests (sizes that do not fit 32 bits are part of C10's domain): address space only, pages are touched by nobody
        p = mmap(nullptr, sz, PROT_READ | PROT_WRITE, MAP_PRIVATE | MAP_ANONYMOUS | MAP_NORESERVE, -1, 0);
        if (p == MAP_FAILED) return nullptr;
        s.huge[p] = sz;
    } else if (s.misaligned) {
        // 16-aligned but never 32-aligned: the minimum malloc guarantees on this platform.
        void *base = nullptr;
        if (posix_memalign(&base, 32, sz + 48) != 0) return nullptr;
        p = (char *)base + 16;
        if (zero) memset(p, 0, sz);
    } else {
        p = zero ? calloc(1, sz ? sz : 1) : malloc(sz ? sz : 1);
    }
    if (p) { s.live[p] = Info{sz, s.serial++}; s.n_alloc++; s.last_alloc = p; s.last_alloc_size = sz; }
    return p;
}

inline void *t_malloc(size_t sz) { { std::lock_guard<SpinLock> lk(mtx()); if (st().fail_next_malloc) { st().fail_next_malloc = false; return nullptr; } } return raw_alloc(sz, false); }
inline void *t_calloc(size_t n, size_t sz) { return raw_alloc(n * sz, true); }
inline void t_free(void *p) {
    if (!p) return;
    std::lock_guard<SpinLock> lk(mtx());
    State &s = st();
    auto it = s.live.find(p);
    if (it == s.live.end()) {
        if (s.error.empty()) {
            char b[96]; snprintf(b, sizeof b, "free of pointer %p that is not a live allocation (double free or foreign pointer)", p);
            s.error = b;
        }
        return; // do not hand it to the real allocator
    }
    if (s.on_free) s.on_free(p);
    s.live.erase(it);
    s.n_free++;
    auto hg = s.huge.find(p);
    if (hg != s.huge.end()) { munmap(p, hg->second); s.huge.erase(hg); }
    else if (s.misaligned) free((char *)p - 16); else free(p);
}

inline void arm_refusal(long k) { std::lock_guard<SpinLock> lk(mtx()); st().fail_countdown = k; st().fail_thread = pthread_self(); st().fail_fired = false; }
inline bool disarm_refusal() { std::lock_guard<SpinLock> lk(mtx()); st().fail_countdown = 0; return st().fail_fired; }
inline void install() { m_set_memhook(t_malloc, t_calloc, t_free); }
inline size_t live_count() { return st().live.size(); }
inline bool is_live(void *p) { return st().live.count(p) != 0; }
inline void reset_counters() { State &s = st(); s.error.clear(); s.fail_at = -1; }

} // namespace track
