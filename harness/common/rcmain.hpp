// Generic driver for a rapidcheck-based harness binary.
#pragma once
#include <rapidcheck.h>
#include "rt.hpp"
extern "C" void __sanitizer_set_death_callback(void (*)(void));

namespace rcm {

template <class Case>
struct Engine {
    std::string rule_text;                                        // generator + non-trivial rule (goes into the evidence)
    std::function<rc::Gen<Case>(const rt::Args &)> gen;
    std::function<rt::Verdict(const Case &, const rt::Args &)> eval; // runs one case (may fork internally)
    std::function<std::string(const Case &)> to_text;
    std::function<bool(const std::string &, Case &)> from_text;
    std::function<long(const rt::Args &)> default_cases;
    std::function<int(const rt::Args &)> max_size = [](const rt::Args &) { return 100; };
    // optional bounded-exhaustive tier run before the random tier; returns false to stop (failure recorded)
    std::function<bool(const rt::Args &, rt::Stats &, rt::Failure &)> exhaustive;
    bool fork_eval = false; // evaluate each case in a forked child (engine A: only with --fork)
    bool hang_is_failure = false; // a case that does not return is a verdict (engines whose cases take microseconds)
    std::function<void(rt::Verdict &)> post; // parent-side post-processing of a verdict (e.g. classify sanitizer reports)
};

template <class Case>
int run(int argc, char **argv, Engine<Case> &E) {
    rt::Args args = rt::parse_args(argc, argv);
    if (const char *e = getenv("VERIF_FORK")) if (*e == '1') args.fork_per_case = true;
    rt::hang_is_failure() = E.hang_is_failure;
    static Engine<Case> *g_engine; g_engine = &E;
    if (E.hang_is_failure && !E.fork_eval && !args.fork_per_case && args.replay.empty()) {
        rt::WatchState &w = rt::watch();
        w.render = [](const void *p) { return g_engine->to_text(*(const Case *)p); };
        w.out_base = args.out + "/shard-" + std::to_string(args.shard); w.prop = args.prop; w.installed = true;
        signal(SIGALRM, rt::watch_handler);
        __sanitizer_set_death_callback(rt::death_callback);
    }
    auto evaluate = [&](const Case &c) -> rt::Verdict {
        rt::watch_tick(&c);
        rt::Verdict v = (E.fork_eval || args.fork_per_case) ? rt::run_forked(args.prop, [&] { return E.eval(c, args); }) : E.eval(c, args);
        if (E.post) E.post(v);
        return v;
    };

    if (!args.replay.empty()) {
        std::string text;
        if (!rt::read_file(args.replay, text)) { fprintf(stderr, "cannot read %s\n", args.replay.c_str()); return 2; }
        Case c;
        if (!E.from_text(text, c)) { fprintf(stderr, "cannot parse %s\n", args.replay.c_str()); return 2; }
        args.fork_per_case = true; // replays always run in a child: a crash is a verdict, not an accident
        rt::Verdict v = evaluate(c);
        if (v.ok) { printf("REPLAY PASS %s%s\n", args.replay.c_str(), v.inconclusive ? " (inconclusive)" : ""); return 0; }
        printf("REPLAY FAIL rule=%s %s\n", v.rule.c_str(), args.replay.c_str());
        printf("%s\n", v.message.c_str());
        return 1;
    }

    double t0 = rt::now_s();
    rt::Stats stats;
    rt::Failure failure;
    bool go_on = true;
    // (the driver's fork-per-case retry of a shard that died in its random tier does not repeat the bounded-exhaustive tier: it passed in-process)
    if (E.exhaustive && !(args.fork_per_case && getenv("VERIF_RETRY"))) { rt::watch().in_exhaustive = true; go_on = E.exhaustive(args, stats, failure); rt::watch().in_exhaustive = false; }

    if (go_on) {
        long cases = args.cases > 0 ? args.cases : E.default_cases(args);
        if (cases > 0) {
            uint64_t seed = rt::shard_seed(args.seed, args.prop, args.shard, args.profile);
            char params[256];
            snprintf(params, sizeof params, "seed=%llu max_success=%ld max_size=%d max_discard_ratio=50 noshrink=0",
                     (unsigned long long)seed, cases, E.max_size(args));
            setenv("RC_PARAMS", params, 1);
            auto g = E.gen(args);
            std::string locked_rule;
            rc::check("property " + args.prop, [&]() {
                Case c = *g;
                std::string text = E.to_text(c);
                rt::Verdict v = evaluate(c);
                stats.record(text, v);
                if (!v.ok && (locked_rule.empty() || locked_rule == v.rule)) {
                    locked_rule = v.rule;
                    failure.present = true; failure.rule = v.rule; failure.message = v.message; failure.text = text;
                    RC_FAIL(v.rule + ": " + v.message);
                }
            });
        }
    }
    if (failure.present) {
        // prepend a comment header naming the rule so a later, different failure is distinguishable
        failure.text = "# rule " + failure.rule + "\n" + failure.text;
    }
    rt::write_report(args, stats, failure, E.rule_text, rt::now_s() - t0);
    return failure.present ? 1 : 0;
}

} // namespace rcm
