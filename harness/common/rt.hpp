// Common runtime for all harness binaries: argument parsing, per-shard statistics,
// failure recording, JSON shard report.  Header-only on purpose (one TU per binary).
#pragma once
#include <cstdint>
#include <cstdio>
#include <cstdlib>
#include <cstring>
#include <functional>
#include <map>
#include <set>
#include <sstream>
#include <string>
#include <unordered_set>
#include <vector>
#include <fstream>
#include <unistd.h>
#include <signal.h>
#include <fcntl.h>
#include <sys/mman.h>
#include <sys/wait.h>

namespace rt {

struct Args {
    std::string prop;            // C01 ...
    std::string tier = "quick";  // quick | thorough
    std::string replay;          // path of a case file (replay mode)
    std::string out = ".";       // directory for the shard report
    std::string profile;         // optional sub-profile
    int shard = 0, nshards = 1;
    uint64_t seed = 1;
    long cases = 0;              // rapidcheck max_success (0: harness default)
    bool fork_per_case = false;
    bool verbose = false;
};

inline Args parse_args(int argc, char **argv) {
    Args a;
    for (int i = 1; i < argc; i++) {
        std::string s = argv[i];
        auto next = [&](void) -> std::string { if (i + 1 >= argc) { fprintf(stderr, "missing value for %s\n", s.c_str()); exit(2);} return argv[++i]; };
        if (s == "--prop") a.prop = next();
        else if (s == "--tier") a.tier = next();
        else if (s == "--replay") a.replay = next();
        else if (s == "--out") a.out = next();
        else if (s == "--profile") a.profile = next();
        else if (s == "--shard") a.shard = atoi(next().c_str());
        else if (s == "--nshards") a.nshards = atoi(next().c_str());
        else if (s == "--seed") a.seed = strtoull(next().c_str(), nullptr, 10);
        else if (s == "--cases") a.cases = atol(next().c_str());
        else if (s == "--fork") a.fork_per_case = true;
        else if (s == "-v") a.verbose = true;
        else { fprintf(stderr, "unknown argument %s\n", s.c_str()); exit(2); }
    }
    return a;
}

inline uint64_t splitmix64(uint64_t x) {
    x += 0x9e3779b97f4a7c15ULL;
    x = (x ^ (x >> 30)) * 0xbf58476d1ce4e5b9ULL;
    x = (x ^ (x >> 27)) * 0x94d049bb133111ebULL;
    return x ^ (x >> 31);
}

inline uint64_t fnv1a(const std::string &s) {
    uint64_t h = 1469598103934665603ULL;
    for (unsigned char c : s) { h ^= c; h *= 1099511628211ULL; }
    return h;
}

// Seed for one shard of one property, derived from VERIF_SEED only.
inline uint64_t shard_seed(uint64_t verif_seed, const std::string &prop, int shard, const std::string &salt = "") {
    return splitmix64(splitmix64(verif_seed) ^ fnv1a(prop + "/" + salt) ^ splitmix64((uint64_t)shard + 17));
}

inline std::string json_escape(const std::string &s) {
    std::string o;
    for (unsigned char c : s) {
        switch (c) {
        case '"': o += "\\\""; break;
        case '\\': o += "\\\\"; break;
        case '\n': o += "\\n"; break;
        case '\t': o += "\\t"; break;
        case '\r': o += "\\r"; break;
        default:
            if (c < 0x20 || c >= 0x7f) { char b[8]; snprintf(b, sizeof b, "\\u%04x", c); o += b; }
            else o += (char)c;
        }
    }
    return o;
}

// Verdict of one evaluated case.
struct Verdict {
    bool ok = true;
    std::string rule;     // e.g. "C12.Q3"
    std::string message;  // human readable
    bool nontrivial = false;
    bool inconclusive = false;
    std::vector<std::string> classes; // labels for the histogram
    void fail(const std::string &r, const std::string &m) { if (ok) { ok = false; rule = r; message = m; } }
};

struct Stats {
    uint64_t evaluations = 0;
    uint64_t nontrivial_evals = 0;
    uint64_t inconclusive = 0;
    uint64_t crashed_children = 0;
    std::map<std::string, uint64_t> classes;
    std::map<std::string, uint64_t> counters;   // free-form extra counters
    std::unordered_set<uint64_t> nontrivial_hashes;
    std::map<std::string, std::string> samples; // class -> first case text
    std::vector<std::string> plain_samples;
    size_t max_samples = 6;
    bool exhaustive = false;
    std::string exhaustive_note;

    void record(const std::string &text, const Verdict &v) {
        evaluations++;
        if (v.inconclusive) inconclusive++;
        for (auto &c : v.classes) {
            classes[c]++;
            if (v.nontrivial && samples.size() < 24 && !samples.count(c)) samples[c] = text;
        }
        if (v.nontrivial) {
            nontrivial_evals++;
            nontrivial_hashes.insert(fnv1a(text));
            if (plain_samples.size() < max_samples && (nontrivial_evals % 97 == 1)) plain_samples.push_back(text);
        }
    }
};

struct Failure {
    bool present = false;
    std::string rule, message, text;
};

inline void write_file(const std::string &path, const std::string &data) {
    FILE *f = fopen(path.c_str(), "w");
    if (!f) { perror(path.c_str()); exit(2); }
    fwrite(data.data(), 1, data.size(), f);
    fclose(f);
}

inline bool read_file(const std::string &path, std::string &out) {
    std::ifstream f(path);
    if (!f) return false;
    std::stringstream ss; ss << f.rdbuf(); out = ss.str();
    return true;
}

// Writes <out>/shard-<k>.json, <out>/shard-<k>.hashes (binary u64) and, on failure,
// <out>/shard-<k>.fail (the minimal failing case text).
inline void write_report(const Args &a, const Stats &st, const Failure &f, const std::string &rule_text, double wall_s) {
    std::string base = a.out + "/shard-" + std::to_string(a.shard);
    {
        FILE *h = fopen((base + ".hashes").c_str(), "wb");
        if (h) { for (uint64_t x : st.nontrivial_hashes) fwrite(&x, 8, 1, h); fclose(h); }
    }
    std::ostringstream o;
    o << "{\n \"prop\": \"" << a.prop << "\", \"shard\": " << a.shard << ", \"seed\": " << a.seed
      << ",\n \"evaluations\": " << st.evaluations
      << ", \"nontrivial_evaluations\": " << st.nontrivial_evals
      << ", \"distinct_nontrivial_in_shard\": " << st.nontrivial_hashes.size()
      << ", \"inconclusive\": " << st.inconclusive
      << ", \"crashed_children\": " << st.crashed_children
      << ", \"exhaustive\": " << (st.exhaustive ? "true" : "false")
      << ", \"exhaustive_note\": \"" << json_escape(st.exhaustive_note) << "\""
      << ", \"wall_s\": " << wall_s << ",\n \"rule\": \"" << json_escape(rule_text) << "\",\n \"classes\": {";
    bool first = true;
    for (auto &kv : st.classes) { o << (first ? "" : ", ") << "\"" << json_escape(kv.first) << "\": " << kv.second; first = false; }
    o << "},\n \"counters\": {";
    first = true;
    for (auto &kv : st.counters) { o << (first ? "" : ", ") << "\"" << json_escape(kv.first) << "\": " << kv.second; first = false; }
    o << "},\n \"samples\": [";
    first = true;
    for (auto &kv : st.samples) { o << (first ? "" : ",\n  ") << "{\"class\": \"" << json_escape(kv.first) << "\", \"case\": \"" << json_escape(kv.second) << "\"}"; first = false; }
    for (auto &s : st.plain_samples) { o << (first ? "" : ",\n  ") << "{\"class\": \"any-nontrivial\", \"case\": \"" << json_escape(s) << "\"}"; first = false; }
    o << "],\n \"failure\": ";
    if (f.present) {
        write_file(base + ".fail", f.text);
        o << "{\"rule\": \"" << json_escape(f.rule) << "\", \"message\": \"" << json_escape(f.message) << "\", \"case_file\": \"" << json_escape(base + ".fail") << "\"}";
    } else o << "null";
    o << "\n}\n";
    write_file(base + ".json", o.str());
}

inline double now_s() {
    struct timespec ts; clock_gettime(CLOCK_MONOTONIC, &ts);
    return ts.tv_sec + ts.tv_nsec / 1e9;
}

// Run fn in a forked child; the child's verdict travels through a shared page.
// A child that dies abnormally yields a failed verdict with rule "<prop>.CRASH".
struct SharedVerdict {
    int done;
    int ok;
    int nontrivial;
    int inconclusive;
    char rule[64];
    char message[3000];
    char classes[900];
};

// Shared text log: the child appends trace lines, the parent reads the tail after a crash.
struct ShLog { size_t cap; volatile size_t len; char data[1]; };
inline ShLog *&shlog_ptr() { static ShLog *p = nullptr; return p; }
inline void shlog_init() {
    if (shlog_ptr()) return;
    size_t cap = 1 << 20;
    ShLog *l = (ShLog *)mmap(nullptr, sizeof(ShLog) + cap, PROT_READ | PROT_WRITE, MAP_SHARED | MAP_ANONYMOUS, -1, 0);
    l->cap = cap; l->len = 0; shlog_ptr() = l;
}
inline void shlog_append(const std::string &s) {
    ShLog *l = shlog_ptr();
    if (!l) return;
    size_t n = s.size();
    if (l->len + n + 1 >= l->cap) { // keep the tail: drop the first half
        size_t half = l->len / 2; memmove(l->data, l->data + half, l->len - half); l->len -= half;
        if (l->len + n + 1 >= l->cap) return;
    }
    memcpy(l->data + l->len, s.data(), n); l->len += n; l->data[l->len] = 0;
}
inline std::string shlog_tail(size_t maxbytes) {
    ShLog *l = shlog_ptr();
    if (!l || !l->len) return "";
    size_t n = l->len, from = n > maxbytes ? n - maxbytes : 0;
    return std::string(l->data + from, n - from);
}

// ---- watchdog for in-process evaluation (engine A): a container operation that never returns must not stall the shard silently ----
struct WatchState { const void *cur = nullptr; std::string (*render)(const void *) = nullptr; std::string out_base, prop; int seconds = 30; unsigned long n = 0; bool installed = false; bool in_exhaustive = false; };
inline WatchState &watch() { static WatchState w; return w; }
inline bool &hang_is_failure() { static bool b = false; return b; } // engines whose cases take microseconds: a case that outlives its timeout is a verdict (<prop>.HANG)
inline void watch_handler(int) {
    WatchState &w = watch();
    std::string text = (w.cur && w.render) ? w.render(w.cur) : std::string("# case not available\n");
    write_file(w.out_base + ".hang", "# rule " + w.prop + ".HANG\n# the operations of this case did not return within " + std::to_string(w.seconds) + " s (in-process evaluation)\n" + text);
    _exit(42);
}
// a sanitizer abort during an in-process evaluation: save the case that was being evaluated (shrunk later through the replay runner)
inline void death_callback() {
    WatchState &w = watch();
    if (!w.cur || !w.render) return;
    const void *c = w.cur; w.cur = nullptr;
    write_file(w.out_base + ".crash", "# rule " + w.prop + ".CRASH\n# sanitizer abort during the in-process evaluation of this case (" + std::string(w.in_exhaustive ? "tier exhaustive" : "tier random") + ")\n" + w.render(c));
}
// called before every in-process evaluation; the alarm is re-armed every 512 cases (so it fires after seconds..2*seconds without progress)
inline void watch_tick(const void *c) { WatchState &w = watch(); w.cur = c; if (w.installed && (w.n++ & 511) == 0) alarm((unsigned)w.seconds); }

inline SharedVerdict *&shared_verdict() { static SharedVerdict *sv = nullptr; return sv; }
// child side: publish the verdict and leave (also usable from a stuck-scheduler hook that must not return)
inline void child_finish(const Verdict &v) {
    SharedVerdict *sv = shared_verdict();
    sv->ok = v.ok; sv->nontrivial = v.nontrivial; sv->inconclusive = v.inconclusive;
    snprintf(sv->rule, sizeof sv->rule, "%s", v.rule.c_str());
    snprintf(sv->message, sizeof sv->message, "%s", v.message.c_str());
    std::string cl; for (auto &c : v.classes) { cl += c; cl += '\n'; }
    snprintf(sv->classes, sizeof sv->classes, "%s", cl.c_str());
    sv->done = 1;
    _exit(0);
}

inline Verdict run_forked(const std::string &prop, const std::function<Verdict()> &fn, int timeout_s = 20, std::string *stderr_out = nullptr) {
    SharedVerdict *&sv = shared_verdict();
    if (!sv) sv = (SharedVerdict *)mmap(nullptr, sizeof(SharedVerdict), PROT_READ | PROT_WRITE, MAP_SHARED | MAP_ANONYMOUS, -1, 0);
    memset(sv, 0, sizeof *sv);
    shlog_init(); shlog_ptr()->len = 0;
    int errpipe[2];
    if (pipe(errpipe) != 0) { perror("pipe"); exit(2); }
    fflush(stdout); fflush(stderr);
    pid_t pid = fork();
    if (pid == 0) {
        close(errpipe[0]);
        dup2(errpipe[1], 2);
        close(errpipe[1]);
        signal(SIGALRM, SIG_DFL); // (under libFuzzer the parent has its own alarm handler)
        alarm(timeout_s);
        Verdict v = fn();
        child_finish(v);
    }
    close(errpipe[1]);
    std::string err;
    char buf[4096]; ssize_t n;
    while ((n = read(errpipe[0], buf, sizeof buf)) > 0) { if (err.size() < 16000) err.append(buf, n); }
    close(errpipe[0]);
    int status = 0;
    waitpid(pid, &status, 0);
    if (stderr_out) *stderr_out = err;
    if (getenv("VERIF_FULLERR") && !err.empty()) fprintf(stderr, "%s\n", err.c_str());
    Verdict v;
    if (sv->done) {
        v.ok = sv->ok; v.nontrivial = sv->nontrivial; v.inconclusive = sv->inconclusive;
        v.rule = sv->rule; v.message = sv->message;
        std::stringstream ss(sv->classes); std::string line;
        while (std::getline(ss, line)) if (!line.empty()) v.classes.push_back(line);
        return v;
    }
    if (WIFSIGNALED(status) && WTERMSIG(status) == SIGALRM) {
        if (hang_is_failure()) { v.ok = false; v.rule = prop + ".HANG"; v.message = "the operations of this case did not return within " + std::to_string(timeout_s) + " s"; v.classes.push_back("hang"); return v; }
        v.inconclusive = true; v.classes.push_back("timeout");
        return v;
    }
    v.ok = false; v.rule = prop + ".CRASH";
    std::ostringstream m;
    m << "child died (status=" << status << (WIFSIGNALED(status) ? std::string(" signal ") + std::to_string(WTERMSIG(status)) : std::string("")) << ")\n" << err.substr(0, 1800);
    std::string tail = shlog_tail(1000);
    if (!tail.empty()) m << "\n--- trace tail ---\n" << tail;
    v.message = m.str();
    v.classes.push_back("crash");
    return v;
}


// libFuzzer targets: counters are flushed to $FUZZ_OUT/fuzz-stats.<pid> every 4096 executions, at exit and on failure;
// the text of the case being executed is kept in a shared mapping of $FUZZ_OUT/fuzz-cur.<pid> (survives a sanitizer abort);
// a case failing the oracle is written as text to $FUZZ_OUT/fuzz-fail.<pid>.case before trapping (sanitizer-style abort).
inline void fuzz_pre(const std::string &text) {
    static char *buf = nullptr; static const size_t cap = 1 << 16;
    const char *out = getenv("FUZZ_OUT");
    if (!out) return;
    if (!buf) {
        std::string p = std::string(out) + "/fuzz-cur." + std::to_string(getpid());
        int fd = open(p.c_str(), O_CREAT | O_RDWR | O_TRUNC, 0600);
        if (fd < 0 || ftruncate(fd, cap) != 0) return;
        buf = (char *)mmap(nullptr, cap, PROT_READ | PROT_WRITE, MAP_SHARED, fd, 0);
        close(fd);
        if (buf == MAP_FAILED) { buf = nullptr; return; }
    }
    size_t n = std::min(text.size(), cap - 1);
    memcpy(buf, text.data(), n); buf[n] = 0;
}
struct FuzzAcct { uint64_t execs = 0, nontrivial = 0; std::unordered_set<uint64_t> hashes; std::string sample; std::map<std::string, uint64_t> classes; };
inline FuzzAcct &fuzz_acct() { static FuzzAcct a; return a; }
inline void fuzz_flush() {
    const char *out = getenv("FUZZ_OUT");
    if (!out) return;
    FuzzAcct &A = fuzz_acct();
    std::string p = std::string(out) + "/fuzz-stats." + std::to_string(getpid());
    FILE *f = fopen(p.c_str(), "w"); if (!f) return;
    fprintf(f, "{\"execs\": %llu, \"nontrivial\": %llu, \"distinct_nontrivial\": %zu, \"sample\": \"%s\", \"classes\": {", (unsigned long long)A.execs, (unsigned long long)A.nontrivial, A.hashes.size(), json_escape(A.sample).c_str());
    bool first = true; for (auto &kv : A.classes) { fprintf(f, "%s\"%s\": %llu", first ? "" : ", ", json_escape(kv.first).c_str(), (unsigned long long)kv.second); first = false; }
    fprintf(f, "}}\n");
    fclose(f);
    std::string hp = std::string(out) + "/fuzz-hashes." + std::to_string(getpid());
    FILE *h = fopen(hp.c_str(), "wb"); if (!h) return;
    for (uint64_t x : A.hashes) fwrite(&x, 8, 1, h);
    fclose(h);
}
inline void fuzz_account(const std::string &text, const Verdict &v) {
    FuzzAcct &A = fuzz_acct();
    static bool registered = false; if (!registered) { registered = true; atexit(fuzz_flush); }
    A.execs++;
    for (auto &c : v.classes) A.classes[c]++;
    if (v.nontrivial) { A.nontrivial++; if (A.hashes.size() < 2000000) A.hashes.insert(fnv1a(text)); if (A.sample.empty() || (A.execs % 50000) == 0) A.sample = text; }
    const char *out = getenv("FUZZ_OUT");
    if (!v.ok) {
        if (out) { std::string first = v.message.substr(0, v.message.find('\n')); write_file(std::string(out) + "/fuzz-fail." + std::to_string(getpid()) + ".case", "# rule " + v.rule + "\n# " + first.substr(0, 300) + "\n" + text); }
        fuzz_flush();
        fprintf(stderr, "FUZZ-VIOLATION %s: %s\n", v.rule.c_str(), v.message.c_str());
        __builtin_trap();
    }
    if ((A.execs & 16383) == 0) fuzz_flush();
}

} // namespace rt
