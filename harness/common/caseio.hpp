// Plain-text case files: a header of "key value" lines followed by "op <name> <ints...>" lines.
#pragma once
#include <map>
#include <sstream>
#include <string>
#include <vector>

namespace cio {

struct Op {
    int code = 0;
    std::vector<long> a;
    long arg(size_t i, long def = 0) const { return i < a.size() ? a[i] : def; }
    bool operator==(const Op &o) const { return code == o.code && a == o.a; }
};

struct Text {
    std::string magic;
    std::map<std::string, std::string> hdr;
    std::vector<std::pair<std::string, std::vector<long>>> ops;
    std::vector<std::string> comments;
};

inline bool parse(const std::string &s, Text &t) {
    std::stringstream ss(s);
    std::string line;
    bool first = true;
    while (std::getline(ss, line)) {
        if (line.empty()) continue;
        if (line[0] == '#') { t.comments.push_back(line); continue; }
        std::stringstream ls(line);
        std::string w; ls >> w;
        if (first) { t.magic = w; first = false; continue; }
        if (w == "op") {
            std::string name; ls >> name;
            std::vector<long> a; long v;
            while (ls >> v) a.push_back(v);
            t.ops.push_back({name, a});
        } else {
            std::string rest; std::getline(ls, rest);
            size_t p = rest.find_first_not_of(' ');
            t.hdr[w] = p == std::string::npos ? "" : rest.substr(p);
        }
    }
    return !first;
}

inline long hdr_long(const Text &t, const std::string &k, long def) {
    auto it = t.hdr.find(k);
    return it == t.hdr.end() ? def : atol(it->second.c_str());
}

} // namespace cio
