// C05 — string-keyed map: model-based test against std::map with steered (colliding / wrapping) key pools.
#include <sys/types.h>
#include <map>
#include <set>
#include <algorithm>
extern "C" {
#include <module/structs/map.h>
int m_map_verif_slot(const m_map_t *m, const char *key, size_t *home, ssize_t *slot, size_t *table_size);
}
#include "../common/rcmain.hpp"
#include "../common/caseio.hpp"
#include "../common/track.hpp"
#include "../common/gens.hpp"

using cio::Op;

enum Code {
    PUT = 0,     // a0 = key class, a1 = key index, a2 = value mode (0 fresh value, 1 same value again if present)
    GET, CONTAINS, REMOVE, // a0,a1 = key ref
    LEN,
    ITERATE,     // a[] = per-visit actions (0 continue, 1 remove current, 2 stop(+), 3 abort(-))
    ITR,         // a[] = per-position actions (0 keep, 1 remove, 2 set fresh value, 5 abandon)
    CLEAR,
    FREENEW,
    BULK,        // a0 = number of fresh keys to put (forces growth)
    PUTNULL,     // NULL key / NULL value: must be refused
    RUN,         // a0 = where the run starts (0: slot 0, 1: 30 slots before the table end (wraps), 2: slot 97), a1 = length relative to half the table (n = size/2 - 3 + a1):
                 //      puts one key per consecutive home slot, so that one contiguous probe run longer than half the table exists (key class 7 then names keys of this run)
    NCODES
};
static const char *code_names[] = {"put", "get", "contains", "remove", "len", "iterate", "itr", "clear", "freenew", "bulk", "putnull", "run"};

struct Case {
    int flags = 0; // bit0 KEY_DUP, bit1 KEY_AUTOFREE, bit2 VAL_ALLOW_UPDATE
    int dtor = 1;
    std::vector<Op> ops;
};

static std::string to_text(const Case &c) {
    std::ostringstream o;
    o << "map1\nflags " << c.flags << "\ndtor " << c.dtor << "\n";
    for (auto &op : c.ops) { o << "op " << code_names[op.code]; for (long v : op.a) o << " " << v; o << "\n"; }
    return o.str();
}
static bool from_text(const std::string &s, Case &c) {
    cio::Text t;
    if (!cio::parse(s, t) || t.magic != "map1") return false;
    c.flags = cio::hdr_long(t, "flags", 0); c.dtor = cio::hdr_long(t, "dtor", 1);
    for (auto &o : t.ops) {
        Op op; op.code = -1;
        for (int i = 0; i < NCODES; i++) if (o.first == code_names[i]) op.code = i;
        if (op.code < 0) return false;
        op.a = o.second; c.ops.push_back(op);
    }
    return true;
}
void showValue(const Case &c, std::ostream &os) { os << to_text(c); }

static const int ARENA = 8192;
static int arena[ARENA + 1];
static int dtor_count[ARENA + 1];
static int bad_dtor_arg;
static inline int id_of(const void *p) {
    if (p < (void *)&arena[1] || p > (void *)&arena[ARENA]) return -1;
    return (int)((int *)p - arena);
}
static void log_dtor(void *p) { int id = id_of(p); if (id < 1) bad_dtor_arg++; else dtor_count[id]++; }

// ---- steered key pools: keys whose home slot (for a given table size) is a chosen slot ----
// class 1: last slot, 2: last-1, 3: last-2, 4: slot 0, 5: slot 1, 6: slot 97 (arbitrary inner slot)
static std::map<std::pair<size_t, int>, std::vector<std::string>> pool_cache;
static const int POOL_N = 10;
static size_t home_for(size_t tsize, int cls) {
    switch (cls) { case 1: return tsize - 1; case 2: return tsize - 2; case 3: return tsize - 3; case 4: return 0; case 5: return 1; default: return 97 % tsize; }
}
static const std::vector<std::string> &steered_pool(m_map_t *m, size_t tsize, int cls) {
    auto key = std::make_pair(tsize, cls);
    auto it = pool_cache.find(key);
    if (it != pool_cache.end()) return it->second;
    std::vector<std::string> v;
    size_t want = home_for(tsize, cls);
    for (long n = 0; (int)v.size() < POOL_N && n < 4000000; n++) {
        char b[48]; snprintf(b, sizeof b, "s%d_%ld", cls, n);
        size_t home = 0, ts = 0;
        m_map_verif_slot(m, b, &home, nullptr, &ts);
        if (ts != tsize) break;
        if (home == want) v.push_back(b);
    }
    return pool_cache[key] = v;
}

// one key per home slot of a table of the given size (only built for small tables)
static std::map<size_t, std::vector<std::string>> home_keys_cache;
static const std::vector<std::string> &home_keys(m_map_t *m, size_t tsize) {
    auto it = home_keys_cache.find(tsize);
    if (it != home_keys_cache.end()) return it->second;
    std::vector<std::string> v(tsize); size_t have = 0;
    for (long n = 0; have < tsize && n < 400000; n++) {
        char b[48]; snprintf(b, sizeof b, "r%ld", n);
        size_t home = 0, ts = 0;
        m_map_verif_slot(m, b, &home, nullptr, &ts);
        if (ts != tsize) break;
        if (home < tsize && v[home].empty()) { v[home] = b; have++; }
    }
    return home_keys_cache[tsize] = v;
}

struct Runner {
    const Case &c;
    rt::Verdict v;
    m_map_t *m = nullptr;
    std::map<std::string, int> model;          // key -> value id
    std::map<std::string, const char *> keyptr; // key -> pointer the harness handed over / must keep alive (non-DUP modes)
    std::deque<std::string> stable_keys;       // storage for keys when the map neither copies nor owns them
    int next_id = 1;
    std::vector<int> exp_min, exp_max;
    int step = 0;
    size_t base_live = 0;
    int open_itrs = 0;
    bool dup, autofree, update;
    bool nt = false; int growths = 0; size_t last_tsize = 0;
    std::set<std::string> cls;
    long bulk_serial = 0;
    std::vector<std::string> run_keys; // keys of the last RUN op, in slot order

    Runner(const Case &cc) : c(cc), exp_min(ARENA + 1, 0), exp_max(ARENA + 1, 0) {
        dup = c.flags & 1; autofree = (c.flags & 2) || dup; update = c.flags & 4;
    }
    void fail(const char *rule, const std::string &msg) { std::ostringstream o; o << "step " << step << ": " << msg; v.fail(std::string("C05.") + rule, o.str()); }
    int fresh() { int id = next_id++; if (id > ARENA) id = ARENA; return id; }
    void dropped(int id) { exp_min[id]++; exp_max[id]++; }
    void replaced(int id) { exp_max[id]++; }

    size_t tsize() { size_t ts = 0; m_map_verif_slot(m, "x", nullptr, nullptr, &ts); return ts; }
    std::string key_of(long kc, long ki) {
        if (kc <= 0) {
            long n = ki % 48;
            if (n == 40) return "";                         // empty key
            if (n == 41) return std::string(300, 'L');      // long key
            if (n == 42) return std::string("\xc3\xa9\xff\x80key");
            if (n == 43) return std::string(299, 'L') + "M";
            return "k" + std::to_string(n);
        }
        if (kc == 7) {
            if (run_keys.empty()) return "norun" + std::to_string(ki % 3);
            const size_t n = run_keys.size(); const long j = ki % 12;
            const size_t pos = j < 4 ? (size_t)j : j < 8 ? n / 2 - 2 + (size_t)(j - 4) : n - 1 - (size_t)(j - 8);
            return run_keys[pos % n];
        }
        int cl = (int)((kc - 1) % 6) + 1;
        auto &p = steered_pool(m, tsize(), cl);
        if (p.empty()) return "fallback" + std::to_string(ki);
        return p[ki % p.size()];
    }
    bool same_home_chain() {
        if (model.size() > 64) return true;
        std::map<size_t, int> homes;
        for (auto &kv : model) { size_t h = 0; m_map_verif_slot(m, kv.first.c_str(), &h, nullptr, nullptr); if (++homes[h] >= 2) return true; }
        return false;
    }
    bool wrap_cluster() {
        // an entry stored at a slot lower than its home: its probe chain wrapped around the table end
        if (model.size() > 64) return false;
        for (auto &kv : model) { size_t h = 0; ssize_t s = -1; m_map_verif_slot(m, kv.first.c_str(), &h, &s, nullptr); if (s >= 0 && (size_t)s < h) return true; }
        return false;
    }
    void note_structure(const char *what) {
        if (same_home_chain()) { nt = true; cls.insert(std::string(what) + "-with-chain"); }
        if (wrap_cluster()) cls.insert(std::string(what) + "-with-wrapped-cluster");
    }
    void track_growth() {
        size_t ts = tsize();
        if (last_tsize && ts != last_tsize) { growths++; nt = true; cls.insert("growth"); }
        last_tsize = ts;
    }

    struct Coll { std::vector<std::pair<std::string, int>> seen; std::vector<const char *> keyptrs; };
    static int coll_cb(void *up, const char *key, void *val) { Coll *c = (Coll *)up; c->seen.push_back({key, id_of(val)}); c->keyptrs.push_back(key); return 0; }

    void check_state(const char *what) {
        if (!v.ok) return;
        ssize_t n = m_map_len(m);
        if (n != (ssize_t)model.size()) { fail("LEN", std::string(what) + ": len " + std::to_string(n) + ", model " + std::to_string(model.size())); return; }
        Coll col;
        int r = m_map_iterate(m, coll_cb, &col);
        if (!model.empty() && r != 0) { fail("RET", std::string(what) + ": read-back iterate returned " + std::to_string(r)); return; }
        std::map<std::string, int> got;
        for (auto &p : col.seen) {
            if (got.count(p.first)) { fail("ITERATE", std::string(what) + ": iterate visited key '" + p.first + "' twice"); return; }
            got[p.first] = p.second;
        }
        if (got != model) {
            std::ostringstream o; o << what << ": content differs from model: map has " << got.size() << " entries, model " << model.size();
            for (auto &kv : model) if (!got.count(kv.first)) { o << "; missing '" << kv.first.substr(0, 20) << "'"; break; } else if (got[kv.first] != kv.second) { o << "; value of '" << kv.first.substr(0, 20) << "' is " << got[kv.first] << " expected " << kv.second; break; }
            for (auto &kv : got) if (!model.count(kv.first)) { o << "; unexpected '" << kv.first.substr(0, 20) << "'"; break; }
            fail("CONTENT", o.str()); return;
        }
        // get/contains agree for every model key (bounded for big maps)
        int cnt = 0;
        for (auto &kv : model) {
            if (++cnt > 40) break;
            void *g = m_map_get(m, kv.first.c_str());
            if (id_of(g) != kv.second) { fail("GET", std::string(what) + ": get('" + kv.first.substr(0, 20) + "') returns " + std::to_string(id_of(g)) + ", model " + std::to_string(kv.second)); return; }
            if (!m_map_contains(m, kv.first.c_str())) { fail("GET", std::string(what) + ": contains('" + kv.first.substr(0, 20) + "') is false for a live key"); return; }
        }
        // allocator accounting: header + table + one allocation per owned key + open iterators
        size_t expect = base_live + 2 + (autofree ? model.size() : 0) + open_itrs;
        if (track::live_count() != expect) fail("ALLOC", std::string(what) + ": " + std::to_string(track::live_count() - base_live) + " allocations outstanding for the map, expected " + std::to_string(expect - base_live) + " (header+table" + (autofree ? "+one per key" : "") + ")");
        if (!track::st().error.empty()) fail("ALLOC", track::st().error);
    }

    // hand a key to m_map_put according to the flag mode; returns the pointer passed
    int put_key(const std::string &k, int valid, bool &took, bool known_new = false) {
        took = false;
        int r;
        if (dup) {
            char *buf = (char *)malloc(k.size() + 1); memcpy(buf, k.c_str(), k.size() + 1);
            r = m_map_put(m, buf, &arena[valid]);
            memset(buf, 'Z', k.size()); // the map must hold a private copy
            free(buf);
        } else if (autofree) {
            char *buf = (char *)track::t_malloc(k.size() + 1); memcpy(buf, k.c_str(), k.size() + 1);
            r = m_map_put(m, buf, &arena[valid]);
            // ownership passes only if the map stored this very pointer
            if (known_new) took = (r == 0);
            else { Coll col; m_map_iterate(m, coll_cb, &col); for (auto p : col.keyptrs) if (p == buf) took = true; }
            if (!took) track::t_free(buf);
        } else {
            const char *p;
            auto it = keyptr.find(k);
            if (it != keyptr.end()) p = it->second;
            else { stable_keys.push_back(k); p = stable_keys.back().c_str(); keyptr[k] = p; }
            r = m_map_put(m, p, &arena[valid]);
        }
        return r;
    }

    void do_put(const std::string &k, int mode) {
        auto it = model.find(k);
        bool present = it != model.end();
        int valid = (mode == 1 && present) ? it->second : fresh();
        bool took;
        int r = put_key(k, valid, took);
        if (!present) {
            if (r == 0) model[k] = valid;
            else if (r == -ENOMEM) cls.insert("put-enomem");
            else { fail("RET", "put of new key '" + k.substr(0, 20) + "' returned " + std::to_string(r)); return; }
        } else if (update) {
            if (r != 0) { fail("RET", "put on existing key with updates allowed returned " + std::to_string(r)); return; }
            if (it->second != valid) { dropped(it->second); it->second = valid; }
            nt = true; cls.insert(dup ? "update-on-dup" : "update");
        } else {
            if (r >= 0) { fail("RET", "put on existing key without update permission returned " + std::to_string(r)); return; }
            cls.insert(dup ? "refused-put-on-dup" : "refused-put");
            if (dup) nt = true;
        }
        track_growth();
        check_state("put");
    }

    rt::Verdict run() {
        memset(dtor_count, 0, sizeof dtor_count); bad_dtor_arg = 0;
        track::st().error.clear();
        base_live = track::live_count();
        int fl = (dup ? M_MAP_KEY_DUP : 0) | ((c.flags & 2) ? M_MAP_KEY_AUTOFREE : 0) | (update ? M_MAP_VAL_ALLOW_UPDATE : 0);
        m = m_map_new((m_map_flags)fl, c.dtor ? log_dtor : nullptr);
        if (!m) { v.fail("C05.RET", "m_map_new returned NULL"); return v; }
        last_tsize = tsize();
        check_state("new");
        for (size_t i = 0; i < c.ops.size() && v.ok; i++) {
            step = (int)i;
            const Op &op = c.ops[i];
            switch (op.code) {
            case PUT: do_put(key_of(op.arg(0), op.arg(1)), (int)op.arg(2)); break;
            case PUTNULL: {
                int r1 = m_map_put(m, nullptr, &arena[1]);
                int r2 = m_map_put(m, "nullvalue", nullptr);
                if (r1 >= 0 || r2 >= 0) fail("RET", "put with NULL key/value accepted");
                check_state("put NULL");
                break; }
            case GET: case CONTAINS: {
                std::string k = key_of(op.arg(0), op.arg(1));
                auto it = model.find(k);
                if (op.code == GET) {
                    void *g = m_map_get(m, k.c_str());
                    int e = it == model.end() ? -1 : it->second;
                    if (id_of(g) != e || (e < 0 && g)) fail("GET", "get('" + k.substr(0, 20) + "') returns " + std::to_string(id_of(g)) + ", model " + std::to_string(e));
                } else {
                    bool b = m_map_contains(m, k.c_str());
                    if (b != (it != model.end())) fail("GET", "contains('" + k.substr(0, 20) + "') returns " + std::to_string(b));
                }
                break; }
            case REMOVE: {
                std::string k = key_of(op.arg(0), op.arg(1));
                auto it = model.find(k);
                if (it != model.end()) note_structure("remove");
                int r = m_map_remove(m, k.c_str());
                if (it == model.end()) { if (r == 0) fail("RET", "remove of absent key returned 0"); }
                else { if (r != 0) { fail("RET", "remove of present key returned " + std::to_string(r)); break; } dropped(it->second); model.erase(it); keyptr.erase(k); }
                check_state("remove");
                break; }
            case LEN: check_state("len"); break;
            case ITERATE: do_iterate(op.a); break;
            case ITR: do_itr(op.a); break;
            case CLEAR: {
                if (!model.empty()) note_structure("clear");
                int r = m_map_clear(m);
                if (r != 0) { fail("RET", "clear returned " + std::to_string(r)); break; }
                for (auto &kv : model) dropped(kv.second);
                model.clear(); keyptr.clear();
                check_state("clear");
                break; }
            case FREENEW: {
                for (auto &kv : model) dropped(kv.second);
                model.clear(); keyptr.clear();
                int r = m_map_free(&m);
                if (r != 0 || m) { fail("RET", "free returned " + std::to_string(r)); break; }
                if (track::live_count() != base_live) { fail("LEAK", std::to_string(track::live_count() - base_live) + " allocations outstanding after free"); break; }
                m = m_map_new((m_map_flags)fl, c.dtor ? log_dtor : nullptr);
                last_tsize = tsize();
                check_state("free+new");
                break; }
            case BULK: {
                long n = op.arg(0) % 1500;
                for (long j = 0; j < n && v.ok; j++) {
                    std::string k = "b" + std::to_string(bulk_serial++);
                    int valid = fresh(); bool took;
                    int r = put_key(k, valid, took, true);
                    if (r != 0) { fail("RET", "bulk put returned " + std::to_string(r)); break; }
                    model[k] = valid;
                }
                track_growth();
                check_state("bulk put");
                break; }
            case RUN: {
                const size_t ts = tsize();
                if (ts > 1024) break;
                const auto &hk = home_keys(m, ts);
                const size_t start = op.arg(0) % 3 == 0 ? 0 : op.arg(0) % 3 == 1 ? ts - 30 : 97 % ts;
                const size_t n = ts / 2 - 3 + (size_t)(op.arg(1) % 30);
                if (model.size() + n + 1 > ts - ts / 4) break; // would grow the table half way through: the run would not be one
                run_keys.clear();
                for (size_t j = 0; j < n && v.ok; j++) {
                    const std::string &k = hk[(start + j) % ts];
                    if (k.empty() || model.count(k)) continue;
                    int valid = fresh(); bool took;
                    int r = put_key(k, valid, took, true);
                    if (r != 0) { fail("RET", "put of a new key (run) returned " + std::to_string(r)); break; }
                    model[k] = valid; run_keys.push_back(k);
                }
                track_growth();
                if (run_keys.size() > ts / 2) { cls.insert("run-longer-than-half-the-table"); nt = true; }
                check_state("run put");
                break; }
            default: break;
            }
        }
        // teardown
        step = (int)c.ops.size();
        for (auto &kv : model) dropped(kv.second);
        if (m) {
            int r = m_map_free(&m);
            if (v.ok && (r != 0 || m)) fail("RET", "free returned " + std::to_string(r));
        }
        if (v.ok) {
            if (c.dtor) {
                if (bad_dtor_arg) fail("DTOR", "destructor called with a pointer that is not a stored value");
                for (int id = 1; id < next_id && id <= ARENA; id++)
                    if (dtor_count[id] < exp_min[id] || dtor_count[id] > exp_max[id]) {
                        fail("DTOR", "value " + std::to_string(id) + " destroyed " + std::to_string(dtor_count[id]) + " times, expected " + std::to_string(exp_min[id]) + (exp_max[id] != exp_min[id] ? ".." + std::to_string(exp_max[id]) : ""));
                        break;
                    }
            }
            if (!track::st().error.empty()) fail("ALLOC", track::st().error);
            if (track::live_count() != base_live) fail("LEAK", std::to_string(track::live_count() - base_live) + " allocations outstanding after free (key copies or table leaked)");
        }
        v.nontrivial = nt;
        for (auto &s : cls) v.classes.push_back(s);
        v.classes.push_back("flags=" + std::to_string(c.flags));
        return v;
    }

    // m_map_iterate with a visitor that may remove the entry it is visiting
    struct Visit { Runner *r; const std::vector<long> *acts; size_t n; std::vector<std::string> visited; std::string err; bool removed_any; };
    static int visit_cb(void *up, const char *key, void *val) {
        Visit *vs = (Visit *)up;
        Runner *r = vs->r;
        std::string k = key;
        vs->visited.push_back(k);
        auto it = r->model.find(k);
        if (it == r->model.end()) { if (vs->err.empty()) vs->err = "visited key '" + k.substr(0, 20) + "' that is not live"; return -99; }
        if (id_of(val) != it->second) { if (vs->err.empty()) vs->err = "visited key '" + k.substr(0, 20) + "' with value " + std::to_string(id_of(val)) + ", model " + std::to_string(it->second); return -99; }
        long act = vs->n < vs->acts->size() ? (*vs->acts)[vs->n] : 0;
        vs->n++;
        if (act == 1) {
            int rr = m_map_remove(r->m, k.c_str());
            if (rr != 0) { vs->err = "remove of the visited key returned " + std::to_string(rr); return -99; }
            r->dropped(it->second); r->model.erase(it); r->keyptr.erase(k);
            vs->removed_any = true;
            return 0;
        }
        if (act == 2) return 1;
        if (act == 3) return -5;
        return 0;
    }
    void do_iterate(const std::vector<long> &acts) {
        std::set<std::string> at_start; for (auto &kv : model) at_start.insert(kv.first);
        bool has_rm = std::find(acts.begin(), acts.end(), 1L) != acts.end();
        if (has_rm && !model.empty()) note_structure("iterate-remove");
        Visit vs{this, &acts, 0, {}, "", false};
        int r = m_map_iterate(m, visit_cb, &vs);
        if (!vs.err.empty()) { fail("ITERATE", vs.err); return; }
        std::set<std::string> seen;
        for (auto &k : vs.visited) if (!seen.insert(k).second) { fail("ITERATE", "callback iteration visited '" + k.substr(0, 20) + "' twice (" + std::to_string(vs.visited.size()) + " visits for " + std::to_string(at_start.size()) + " entries)"); return; }
        bool stopped = false; int expect_ret = 0;
        for (size_t i = 0; i < vs.visited.size() && i < acts.size(); i++) { if (acts[i] == 2) stopped = true; if (acts[i] == 3) { stopped = true; expect_ret = -5; } }
        if (!at_start.empty()) {
            if (!stopped && seen != at_start) { fail("ITERATE", "callback iteration visited " + std::to_string(seen.size()) + " of " + std::to_string(at_start.size()) + " live entries"); return; }
            if (r != expect_ret) { fail("RET", "iterate returned " + std::to_string(r) + ", expected " + std::to_string(expect_ret)); return; }
        }
        if (vs.removed_any) cls.insert("iterate-with-removal");
        check_state("iterate");
    }
    void do_itr(const std::vector<long> &acts) {
        std::set<std::string> at_start; for (auto &kv : model) at_start.insert(kv.first);
        bool has_rm = std::find(acts.begin(), acts.end(), 1L) != acts.end();
        if (has_rm && !model.empty()) note_structure("itr-remove");
        m_map_itr_t *itr = m_map_itr_new(m);
        if ((itr == nullptr) != model.empty()) { fail("ITR", "itr_new returned " + std::string(itr ? "an iterator" : "NULL") + " for " + std::to_string(model.size()) + " entries"); if (itr) track::t_free(itr); return; }
        if (!itr) return;
        open_itrs = 1;
        std::set<std::string> seen;
        size_t n = 0; bool abandoned = false; int guard = 0;
        while (itr && v.ok) {
            if (++guard > 20000) { fail("ITR", "iterator does not terminate"); break; }
            const char *kp = m_map_itr_get_key(itr);
            void *d = m_map_itr_get_data(itr);
            if (!kp) { fail("ITR", "get_key returned NULL on a valid iterator"); break; }
            std::string k = kp;
            auto it = model.find(k);
            if (it == model.end()) { fail("ITR", "iterator yields key '" + k.substr(0, 20) + "' that is not live"); break; }
            if (id_of(d) != it->second) { fail("ITR", "iterator yields value " + std::to_string(id_of(d)) + " for '" + k.substr(0, 20) + "', model " + std::to_string(it->second)); break; }
            if (!seen.insert(k).second) { fail("ITR", "iterator visited '" + k.substr(0, 20) + "' twice"); break; }
            long act = n < acts.size() ? acts[n] : 0; n++;
            if (act == 1) {
                int r = m_map_itr_remove(itr);
                if (r != 0) { fail("RET", "itr_remove returned " + std::to_string(r)); break; }
                dropped(it->second); model.erase(it); keyptr.erase(k);
                cls.insert("itr-with-removal");
                check_state("itr_remove");
            } else if (act == 2) {
                int id = fresh();
                int r = m_map_itr_set_data(itr, &arena[id]);
                if (r != 0) { fail("RET", "itr_set_data returned " + std::to_string(r)); break; }
                replaced(it->second); it->second = id;
                check_state("itr_set_data");
            } else if (act == 5) { track::t_free(itr); itr = nullptr; abandoned = true; break; }
            if (!v.ok) break;
            m_map_itr_next(&itr);
        }
        if (itr) { track::t_free(itr); itr = nullptr; }
        open_itrs = 0;
        if (v.ok && !abandoned && seen != at_start) fail("ITR", "iterator visited " + std::to_string(seen.size()) + " of " + std::to_string(at_start.size()) + " live entries");
        check_state("itr session");
    }
};

static rt::Verdict eval_case(const Case &c, const rt::Args &) {
    static bool inst = false;
    if (!inst) { track::install(); inst = true; }
    Runner r(c);
    return r.run();
}

#ifndef FUZZ_TARGET
static rc::Gen<Op> gen_op() {
    using namespace rc;
    auto mk = [](int code, std::vector<long> a = {}) { Op o; o.code = code; o.a = a; return o; };
    // key references: steered classes are drawn more often than plain keys; few distinct indices so keys repeat
    auto keyref = gen::pair(gens::weighted_values<long>({{3, 0}, {5, 1}, {3, 2}, {2, 3}, {3, 4}, {2, 5}, {1, 6}, {3, 7}}), gens::range<long>(0, 12));
    auto keyop = [=](int code) { return gen::map(keyref, [=](std::pair<long, long> k) { return mk(code, {k.first, k.second}); }); };
    std::vector<std::pair<size_t, Gen<Op>>> w;
    w.push_back({40, gen::map(gen::pair(keyref, gens::weighted_values<long>({{4, 0}, {1, 1}})), [=](std::pair<std::pair<long, long>, long> p) { return mk(PUT, {p.first.first, p.first.second, p.second}); })});
    w.push_back({6, keyop(GET)});
    w.push_back({3, keyop(CONTAINS)});
    w.push_back({14, keyop(REMOVE)});
    w.push_back({1, gen::just(mk(LEN))});
    auto acts = [](std::vector<std::pair<size_t, long>> ws) { return gen::map(gen::resize(100, gen::container<std::vector<long>>(gens::weighted_values<long>(ws))), [](std::vector<long> a) { if (a.size() > 40) a.resize(40); return a; }); };
    w.push_back({8, gen::map(acts({{5, 0}, {5, 1}, {1, 2}, {1, 3}}), [=](std::vector<long> a) { return mk(ITERATE, a); })});
    w.push_back({8, gen::map(acts({{5, 0}, {5, 1}, {2, 2}, {1, 5}}), [=](std::vector<long> a) { return mk(ITR, a); })});
    w.push_back({1, gen::just(mk(CLEAR))});
    w.push_back({1, gen::just(mk(FREENEW))});
    w.push_back({1, gen::just(mk(PUTNULL))});
    w.push_back({1, gen::map(gens::weighted_values<long>({{3, 20}, {3, 200}, {1, 420}, {1, 900}}), [=](long n) { return mk(BULK, {n}); })});
    w.push_back({2, gen::map(gen::pair(gens::range<long>(0, 3), gens::range<long>(0, 30)), [=](std::pair<long, long> p) { return mk(RUN, {p.first, p.second}); })});
    return gens::weighted<Op>(w);
}

static rc::Gen<Case> gen_case(const rt::Args &) {
    using namespace rc;
    return gen::map(gen::tuple(gens::range(0, 8), gens::range(0, 4), gen::container<std::vector<Op>>(gen_op())),
                    [](std::tuple<int, int, std::vector<Op>> t) {
                        Case c; c.flags = std::get<0>(t); c.dtor = std::get<1>(t) != 0; c.ops = std::get<2>(t);
                        if (c.ops.size() > 60) c.ops.resize(60);
                        return c;
                    });
}

int main(int argc, char **argv) {
    rcm::Engine<Case> E;
    E.rule_text = "rapidcheck sequences (<= 60 ops + bulk puts up to 1500 keys) of put/get/contains/remove/len/iterate(visitor may remove the current entry, stop, abort)/iterator(remove, set, abandon)/clear/free+new over all 8 flag combinations x {dtor, none}; keys from plain pool (incl. empty, 300-byte, high-bit) and from pools steered with the verification hook to share the last / last-1 / last-2 / first / second / an inner home slot of the current table size. Oracle: std::map model compared by full read-back, get and contains after every step; visited-exactly-once for both iteration styles; destructor log; allocator accounting (header+table+one per owned key; zero after free). Non-trivial = a remove / iterate-remove / clear on a map holding a same-home chain of >= 2 entries, or a table growth, or an update / refused put on an existing key of a key-duplicating map; distinct = distinct case text.";
    E.gen = gen_case;
    E.eval = eval_case;
    E.to_text = to_text;
    E.from_text = from_text;
    E.default_cases = [](const rt::Args &a) { return a.tier == "thorough" ? 120000L : 4000L; };
    E.hang_is_failure = true;
    return rcm::run(argc, argv, E);
}
#endif // !FUZZ_TARGET

#ifdef FUZZ_TARGET
// libFuzzer entry: bytes -> Case (structure-aware decoding), same model and oracle as the rapidcheck tier
#include <fuzzer/FuzzedDataProvider.h>
extern "C" int LLVMFuzzerTestOneInput(const uint8_t *data, size_t size) {
    FuzzedDataProvider fdp(data, size);
    Case c; c.flags = fdp.ConsumeIntegralInRange<int>(0, 7); c.dtor = fdp.ConsumeBool();
    while (fdp.remaining_bytes() > 0 && c.ops.size() < 80) {
        Op o; o.code = fdp.ConsumeIntegralInRange<int>(0, NCODES - 1);
        switch (o.code) {
        case RUN: o.a = {fdp.ConsumeIntegralInRange<long>(0, 2), fdp.ConsumeIntegralInRange<long>(0, 29)}; break;
        case PUT: o.a = {fdp.ConsumeIntegralInRange<long>(0, 7), fdp.ConsumeIntegralInRange<long>(0, 12), fdp.ConsumeIntegralInRange<long>(0, 1)}; break;
        case GET: case CONTAINS: case REMOVE: o.a = {fdp.ConsumeIntegralInRange<long>(0, 7), fdp.ConsumeIntegralInRange<long>(0, 12)}; break;
        case ITERATE: case ITR: { int n = fdp.ConsumeIntegralInRange<int>(0, 12); for (int i = 0; i < n; i++) o.a.push_back(fdp.ConsumeIntegralInRange<long>(0, o.code == ITERATE ? 3 : 2)); break; }
        case BULK: o.a = {fdp.ConsumeIntegralInRange<long>(0, 500)}; break;
        default: break;
        }
        c.ops.push_back(o);
    }
    rt::Args a;
    const std::string text = to_text(c);
    rt::fuzz_pre(text);
    rt::Verdict v = eval_case(c, a);
    fuzz_account(text, v);
    return 0;
}
#endif
