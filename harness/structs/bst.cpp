// C11 — ordered set (BST): model-based test against std::map under the mathematical order.
#include <sys/types.h>
#include <map>
#include <set>
#include <algorithm>
#include <numeric>
extern "C" {
#include <module/structs/bst.h>
}
#include "../common/rcmain.hpp"
#include "../common/caseio.hpp"
#include "../common/track.hpp"
#include "../common/gens.hpp"

using cio::Op;

enum Code {
    INSERT = 0,  // a0 = key index
    REMOVE,      // a0 = key index (a fresh key object comparing equal, at another address in user mode)
    FIND,        // a0 = key index
    LEN,
    TRAVERSE,    // a0 = order (0 pre, 1 post, 2 in, 3 = m_bst_iterate), a1 = mode (0 all, 1 stop +, 2 abort -), a2 = position
    ITR,         // a[] = per-position actions (0 keep, 1 remove, 5 abandon)
    CLEAR,
    FREENEW,
    NULLARGS,
    NCODES
};
static const char *code_names[] = {"insert", "remove", "find", "len", "traverse", "itr", "clear", "freenew", "nullargs"};

struct Case {
    int cmp = 0;  // 0 = default pointer comparator over arbitrary 64-bit values, 1 = user comparator over ints
    int dtor = 1;
    std::vector<Op> ops;
};

static std::string to_text(const Case &c) {
    std::ostringstream o;
    o << "bst1\ncmp " << c.cmp << "\ndtor " << c.dtor << "\n";
    for (auto &op : c.ops) { o << "op " << code_names[op.code]; for (long v : op.a) o << " " << v; o << "\n"; }
    return o.str();
}
static bool from_text(const std::string &s, Case &c) {
    cio::Text t;
    if (!cio::parse(s, t) || t.magic != "bst1") return false;
    c.cmp = cio::hdr_long(t, "cmp", 0); c.dtor = cio::hdr_long(t, "dtor", 1);
    for (auto &o : t.ops) {
        Op op; op.code = -1;
        for (int i = 0; i < NCODES; i++) if (o.first == code_names[i]) op.code = i;
        if (op.code < 0) return false;
        op.a = o.second; c.ops.push_back(op);
    }
    return true;
}
void showValue(const Case &c, std::ostream &os) { os << to_text(c); }

static const int NKEYS = 32;
static const int ARENA = 4096;
static int arena[ARENA + 1];
static std::map<void *, int> dtor_log;
static void log_dtor(void *p) { dtor_log[p]++; }
static int user_cmp(void *a, void *b) { return *(int *)a - *(int *)b; }

// 64-bit values for the default comparator: far-apart pairs on purpose
static uint64_t ptr_value(int ki) {
    static const uint64_t tab[] = {
        0x1ULL, 0x2ULL, 0x7fffffffULL, 0x80000000ULL, 0x80000001ULL, 0xffffffffULL, 0x100000000ULL, 0x100000001ULL,
        0x200000001ULL, 0x17fffffffULL, 0x8000000000000000ULL, 0x8000000000000001ULL, 0xffffffffffffffffULL, 0x7fffffffffffffffULL,
        0x300000001ULL, 0x123456789abcULL,
    };
    if (ki < 16) return tab[ki];
    uint64_t v = rt::splitmix64(0xabcdef + ki);
    return v ? v : 5;
}

typedef uint64_t Key; // user mode: int value; default mode: pointer value
static std::string seq_str(const std::vector<Key> &v) { std::ostringstream o; o << "["; for (size_t i = 0; i < v.size(); i++) o << (i ? "," : "") << std::hex << v[i]; o << "]"; return o.str(); }

struct Collect { std::vector<void *> seen; int mode; int pos; };
static int collect_cb(void *up, void *data) {
    Collect *c = (Collect *)up;
    c->seen.push_back(data);
    if (c->mode == 1 && (int)c->seen.size() - 1 == c->pos) return 3;
    if (c->mode == 2 && (int)c->seen.size() - 1 == c->pos) return -7;
    return 0;
}

// reference unbalanced BST used to validate pre/post-order consistency and to detect two-children nodes
struct RefTree {
    struct N { Key k; int l = -1, r = -1; };
    std::vector<N> n; int root = -1;
    void insert(Key k) {
        int id = (int)n.size(); n.push_back({k});
        if (root < 0) { root = id; return; }
        int cur = root;
        for (;;) { if (k < n[cur].k) { if (n[cur].l < 0) { n[cur].l = id; return; } cur = n[cur].l; } else { if (n[cur].r < 0) { n[cur].r = id; return; } cur = n[cur].r; } }
    }
    void pre(int x, std::vector<Key> &o) { if (x < 0) return; o.push_back(n[x].k); pre(n[x].l, o); pre(n[x].r, o); }
    void post(int x, std::vector<Key> &o) { if (x < 0) return; post(n[x].l, o); post(n[x].r, o); o.push_back(n[x].k); }
    bool two_children(Key k) { for (auto &x : n) if (x.k == k) return x.l >= 0 && x.r >= 0; return false; }
};

struct Runner {
    const Case &c;
    rt::Verdict v;
    m_bst_t *t = nullptr;
    std::map<Key, void *> model; // key -> stored element
    std::map<void *, int> exp;   // expected destructor calls per element pointer
    int next_slot = 1;
    int step = 0;
    size_t base_live = 0;
    bool nt = false; std::set<std::string> cls;

    Runner(const Case &cc) : c(cc) {}
    void fail(const char *rule, const std::string &m) { std::ostringstream o; o << "step " << step << ": " << m; v.fail(std::string("C11.") + rule, o.str()); }
    Key key_of(long ki) { ki = ((ki % NKEYS) + NKEYS) % NKEYS; return c.cmp ? (Key)ki : ptr_value((int)ki); }
    Key key_of_elem(void *e) { return c.cmp ? (Key) * (int *)e : (Key)(uintptr_t)e; }
    // a fresh object whose key is k (user mode: new arena slot; default mode: the pointer value itself)
    void *make_elem(Key k) {
        if (!c.cmp) return (void *)(uintptr_t)k;
        int s = next_slot++; if (s > ARENA) s = ARENA;
        arena[s] = (int)k; return &arena[s];
    }
    // probe object comparing equal to k, at an address different from any stored element
    void *make_probe(Key k) {
        if (!c.cmp) return (void *)(uintptr_t)k;
        static int probes[8]; static int pi = 0;
        pi = (pi + 1) % 8; probes[pi] = (int)k; return &probes[pi];
    }
    std::vector<Key> sorted_keys() { std::vector<Key> o; for (auto &kv : model) o.push_back(kv.first); return o; }

    std::vector<void *> traverse(m_bst_order o, int *ret = nullptr) {
        Collect col{{}, 0, 0};
        int r = m_bst_traverse(t, o, collect_cb, &col);
        if (ret) *ret = r;
        return col.seen;
    }
    RefTree current_shape(bool &ok) {
        RefTree rt_; ok = true;
        auto pre = traverse(M_BST_PRE);
        for (void *e : pre) rt_.insert(key_of_elem(e));
        return rt_;
    }
    void check_state(const char *what) {
        if (!v.ok) return;
        ssize_t n = m_bst_len(t);
        if (n != (ssize_t)model.size()) { fail("LEN", std::string(what) + ": len " + std::to_string(n) + ", model " + std::to_string(model.size())); return; }
        int r1, r2, r3;
        auto in = traverse(M_BST_IN, &r1), pre = traverse(M_BST_PRE, &r2), post = traverse(M_BST_POST, &r3);
        if (r1 || r2 || r3) { fail("RET", std::string(what) + ": traverse returned non-zero"); return; }
        std::vector<Key> ink, prek, postk;
        for (void *e : in) ink.push_back(key_of_elem(e));
        for (void *e : pre) prek.push_back(key_of_elem(e));
        for (void *e : post) postk.push_back(key_of_elem(e));
        auto want = sorted_keys();
        if (ink != want) { fail("ORDER", std::string(what) + ": in-order traversal " + seq_str(ink) + " differs from the sorted model " + seq_str(want)); return; }
        // identity: the stored element is the one the model recorded
        size_t i = 0;
        for (auto &kv : model) { if (in[i] != kv.second) { fail("IDENT", std::string(what) + ": element stored for key " + std::to_string(kv.first) + " is not the one that was inserted"); return; } i++; }
        // pre/post consistent with one binary search tree
        RefTree rt_; for (Key k : prek) rt_.insert(k);
        std::vector<Key> pre2, post2; rt_.pre(rt_.root, pre2); rt_.post(rt_.root, post2);
        auto sp = prek; std::sort(sp.begin(), sp.end());
        if (sp != want || pre2 != prek) { fail("SHAPE", std::string(what) + ": pre-order " + seq_str(prek) + " is not the pre-order of a binary search tree over the model keys"); return; }
        if (post2 != postk) { fail("SHAPE", std::string(what) + ": post-order " + seq_str(postk) + " inconsistent with pre-order " + seq_str(prek)); return; }
        // find agrees
        for (auto &kv : model) {
            void *probe = make_probe(kv.first);
            void *f = m_bst_find(t, probe);
            if (f != kv.second) { fail("FIND", std::string(what) + ": find of a present key does not return the stored element"); return; }
        }
        if (!track::st().error.empty()) fail("ALLOC", track::st().error);
        size_t expect = base_live + 1 + model.size();
        if (track::live_count() != expect) fail("ALLOC", std::string(what) + ": " + std::to_string(track::live_count() - base_live) + " allocations outstanding, expected header + one node per element = " + std::to_string(expect - base_live));
    }
    void note_removal(Key k) {
        bool ok; RefTree rt_ = current_shape(ok);
        if (rt_.two_children(k)) { cls.insert("remove-two-children"); if (c.dtor) nt = true; }
    }

    rt::Verdict run() {
        dtor_log.clear(); track::st().error.clear();
        base_live = track::live_count();
        t = m_bst_new(c.cmp ? user_cmp : nullptr, c.dtor ? log_dtor : nullptr);
        if (!t) { v.fail("C11.RET", "m_bst_new returned NULL"); return v; }
        check_state("new");
        for (size_t i = 0; i < c.ops.size() && v.ok; i++) {
            step = (int)i;
            const Op &op = c.ops[i];
            switch (op.code) {
            case INSERT: {
                Key k = key_of(op.arg(0));
                void *e = make_elem(k);
                bool present = model.count(k);
                int r = m_bst_insert(t, e);
                if (!present) { if (r != 0) { fail("RET", "insert of a new key returned " + std::to_string(r)); break; } model[k] = e; }
                else if (r >= 0) { fail("RET", "insert of a key comparing equal to a present one returned " + std::to_string(r)); break; }
                if (!c.cmp) { nt = true; cls.insert("default-cmp"); }
                check_state("insert");
                break; }
            case REMOVE: {
                Key k = key_of(op.arg(0));
                void *probe = make_probe(k);
                auto it = model.find(k);
                if (it != model.end()) note_removal(k);
                int r = m_bst_remove(t, probe);
                if (it == model.end()) { if (r == 0) fail("RET", "remove of an absent key returned 0"); }
                else { if (r != 0) { fail("RET", "remove of a present key returned " + std::to_string(r)); break; } exp[it->second]++; model.erase(it); }
                check_state("remove");
                break; }
            case FIND: {
                Key k = key_of(op.arg(0));
                void *f = m_bst_find(t, make_probe(k));
                auto it = model.find(k);
                if (f != (it == model.end() ? nullptr : it->second)) fail("FIND", "find returned " + std::string(f ? "an element" : "NULL") + " for a key that is " + (it == model.end() ? "absent" : "present (other element)"));
                break; }
            case LEN: check_state("len"); break;
            case TRAVERSE: {
                int ord = (int)(op.arg(0) % 4), mode = (int)(op.arg(1) % 3);
                Collect col{{}, mode, model.empty() ? 0 : (int)(op.arg(2) % (long)model.size())};
                int r = ord == 3 ? m_bst_iterate(t, collect_cb, &col) : m_bst_traverse(t, ord == 0 ? M_BST_PRE : ord == 1 ? M_BST_POST : M_BST_IN, collect_cb, &col);
                int er = (mode == 2 && !model.empty()) ? -7 : 0;
                if (r != er) { fail("RET", "traverse returned " + std::to_string(r) + ", expected " + std::to_string(er)); break; }
                size_t want = model.empty() ? 0 : (mode == 0 ? model.size() : (size_t)col.pos + 1);
                if (col.seen.size() != want) { fail("ORDER", "traverse with early stop visited " + std::to_string(col.seen.size()) + " elements, expected " + std::to_string(want)); break; }
                if (ord == 2) { auto sk = sorted_keys(); for (size_t j = 0; j < col.seen.size(); j++) if (key_of_elem(col.seen[j]) != sk[j]) { fail("ORDER", "in-order traversal prefix not ascending"); break; } }
                break; }
            case ITR: do_itr(op.a); break;
            case CLEAR: {
                int r = m_bst_clear(t);
                if (!model.empty() && r != 0) { fail("RET", "clear returned " + std::to_string(r)); break; }
                for (auto &kv : model) exp[kv.second]++;
                model.clear();
                check_state("clear");
                break; }
            case FREENEW: {
                for (auto &kv : model) exp[kv.second]++;
                model.clear();
                int r = m_bst_free(&t);
                if (r != 0 || t) { fail("RET", "free returned " + std::to_string(r)); break; }
                if (track::live_count() != base_live) { fail("LEAK", std::to_string(track::live_count() - base_live) + " allocations outstanding after free"); break; }
                t = m_bst_new(c.cmp ? user_cmp : nullptr, c.dtor ? log_dtor : nullptr);
                check_state("free+new");
                break; }
            case NULLARGS: {
                if (m_bst_insert(t, nullptr) >= 0 || m_bst_insert(nullptr, &arena[1]) >= 0 || m_bst_find(t, nullptr) || m_bst_len(nullptr) >= 0) fail("RET", "NULL argument accepted");
                check_state("null args");
                break; }
            default: break;
            }
        }
        step = (int)c.ops.size();
        for (auto &kv : model) exp[kv.second]++;
        if (t) { int r = m_bst_free(&t); if (v.ok && (r != 0 || t)) fail("RET", "free returned " + std::to_string(r)); }
        if (v.ok) {
            if (c.dtor) {
                for (auto &kv : dtor_log) { auto it = exp.find(kv.first); int e = it == exp.end() ? 0 : it->second; if (kv.second != e) { fail("DTOR", "element " + std::to_string((uint64_t)(uintptr_t)kv.first) + " destroyed " + std::to_string(kv.second) + " times, expected " + std::to_string(e)); break; } }
                for (auto &kv : exp) if (v.ok && dtor_log[kv.first] != kv.second) { fail("DTOR", "element " + std::to_string((uint64_t)(uintptr_t)kv.first) + " destroyed " + std::to_string(dtor_log[kv.first]) + " times, expected " + std::to_string(kv.second)); break; }
            }
            if (!track::st().error.empty()) fail("ALLOC", track::st().error);
            if (track::live_count() != base_live) fail("LEAK", std::to_string(track::live_count() - base_live) + " allocations outstanding after free");
        }
        v.nontrivial = nt;
        for (auto &s : cls) v.classes.push_back(s);
        v.classes.push_back(c.cmp ? "user-cmp" : "default-cmp-mode");
        return v;
    }
    void do_itr(const std::vector<long> &acts) {
        m_bst_itr_t *itr = m_bst_itr_new(t);
        if ((itr == nullptr) != model.empty()) { fail("ITR", "itr_new returned " + std::string(itr ? "an iterator" : "NULL") + " for " + std::to_string(model.size()) + " elements"); if (itr) track::t_free(itr); return; }
        if (!itr) return;
        auto keys = sorted_keys();
        size_t pos = 0, n = 0; int guard = 0;
        bool abandoned = false;
        while (itr && v.ok) {
            if (++guard > 10000) { fail("ITR", "iterator does not terminate"); break; }
            if (pos >= keys.size()) { fail("ITR", "iterator still valid after the greatest element"); break; }
            void *d = m_bst_itr_get_data(itr);
            if (!d || key_of_elem(d) != keys[pos] || d != model[keys[pos]]) { fail("ITR", "iterator at position " + std::to_string(pos) + " yields " + (d ? std::to_string(key_of_elem(d)) : std::string("NULL")) + ", expected key " + std::to_string(keys[pos]) + " of " + seq_str(keys)); break; }
            long act = n < acts.size() ? acts[n] : 0; n++;
            if (act == 1) {
                note_removal(keys[pos]);
                int r = m_bst_itr_remove(itr);
                if (r != 0) { fail("RET", "itr_remove returned " + std::to_string(r)); break; }
                exp[model[keys[pos]]]++; model.erase(keys[pos]);
                cls.insert("itr-remove");
                open_itr = 1; check_state_itr(); open_itr = 0;
            } else if (act == 5) { track::t_free(itr); itr = nullptr; abandoned = true; break; }
            if (!v.ok) break;
            m_bst_itr_next(&itr);
            pos++;
            if (!itr && pos < keys.size()) { fail("ITR", "iterator ended after " + std::to_string(pos) + " of " + std::to_string(keys.size()) + " elements"); break; }
        }
        if (itr) track::t_free(itr);
        (void)abandoned;
        check_state("itr session");
    }
    int open_itr = 0;
    void check_state_itr() { size_t b = base_live; base_live += 1; check_state("itr_remove"); base_live = b; }
};

static rt::Verdict eval_case(const Case &c, const rt::Args &) {
    static bool inst = false;
    if (!inst) { track::install(); inst = true; }
    Runner r(c);
    return r.run();
}

#ifndef FUZZ_TARGET
static rc::Gen<Op> gen_op() {
    using namespace rc;
    auto mk = [](int code, std::vector<long> a = {}) { Op o; o.code = code; o.a = a; return o; };
    auto key = gens::range<long>(0, NKEYS);
    std::vector<std::pair<size_t, Gen<Op>>> w;
    w.push_back({40, gen::map(key, [=](long k) { return mk(INSERT, {k}); })});
    w.push_back({18, gen::map(key, [=](long k) { return mk(REMOVE, {k}); })});
    w.push_back({5, gen::map(key, [=](long k) { return mk(FIND, {k}); })});
    w.push_back({1, gen::just(mk(LEN))});
    w.push_back({4, gen::map(gen::tuple(gens::range<long>(0, 4), gens::range<long>(0, 3), gens::range<long>(0, 12)), [=](std::tuple<long, long, long> t) { return mk(TRAVERSE, {std::get<0>(t), std::get<1>(t), std::get<2>(t)}); })});
    w.push_back({12, gen::map(gen::resize(100, gen::container<std::vector<long>>(gens::weighted_values<long>({{5, 0}, {5, 1}, {1, 5}}))), [=](std::vector<long> a) { if (a.size() > 40) a.resize(40); return mk(ITR, a); })});
    w.push_back({1, gen::just(mk(CLEAR))});
    w.push_back({1, gen::just(mk(FREENEW))});
    w.push_back({1, gen::just(mk(NULLARGS))});
    return gens::weighted<Op>(w);
}
static rc::Gen<Case> gen_case(const rt::Args &) {
    using namespace rc;
    return gen::map(gen::tuple(gens::range(0, 2), gens::range(0, 4), gen::container<std::vector<Op>>(gen_op())),
                    [](std::tuple<int, int, std::vector<Op>> t) {
                        Case c; c.cmp = std::get<0>(t); c.dtor = std::get<1>(t) != 0; c.ops = std::get<2>(t);
                        if (c.ops.size() > 90) c.ops.resize(90);
                        return c;
                    });
}

// Exhaustive tier: all insertion orders of K distinct keys (K <= Kmax), each followed by every single removal
// (by key and through the iterator at every position), for both comparators.
static bool exhaustive(const rt::Args &args, rt::Stats &stats, rt::Failure &failure) {
    int Kmax = args.tier == "thorough" ? 7 : 6;
    if (const char *e = getenv("VERIF_C11_K")) Kmax = atoi(e);
    uint64_t idx = 0, total = 0;
    for (int cmp = 0; cmp < 2; cmp++)
        for (int K = 1; K <= Kmax; K++) {
            std::vector<int> perm(K); std::iota(perm.begin(), perm.end(), 0);
            do {
                for (int target = 0; target < K; target++)
                    for (int via = 0; via < 2; via++) {
                        if ((idx++ % args.nshards) != (uint64_t)args.shard) continue;
                        Case c; c.cmp = cmp; c.dtor = 1;
                        auto mk = [](int code, std::vector<long> a = {}) { Op o; o.code = code; o.a = a; return o; };
                        // keys 2..: for the default comparator these are the far-apart table entries
                        for (int p : perm) c.ops.push_back(mk(INSERT, {(long)p + 2}));
                        if (via == 0) c.ops.push_back(mk(REMOVE, {(long)target + 2}));
                        else { std::vector<long> acts(K, 0); acts[target] = 1; c.ops.push_back(mk(ITR, acts)); }
                        c.ops.push_back(mk(INSERT, {(long)target + 2})); // re-insert: the set keeps working
                        rt::watch_tick(&c);
                        rt::Verdict v = args.fork_per_case ? rt::run_forked(args.prop, [&] { return eval_case(c, args); }) : eval_case(c, args);
                        total++;
                        stats.record(to_text(c), v);
                        if (!v.ok) { failure.present = true; failure.rule = v.rule; failure.message = v.message; failure.text = to_text(c); return false; }
                    }
            } while (std::next_permutation(perm.begin(), perm.end()));
        }
    stats.exhaustive = true;
    stats.exhaustive_note = "all insertion orders of K distinct keys for K <= " + std::to_string(Kmax) + ", each followed by every single removal by key and by iterator position and a re-insert, for user and default comparator";
    stats.counters["exhaustive_cases"] = total;
    return true;
}

int main(int argc, char **argv) {
    rcm::Engine<Case> E;
    E.rule_text = "Exhaustive tier: every insertion order of K <= 6 (quick) / 7 (thorough) distinct keys followed by every single removal (by key, by iterator position) and a re-insert, both comparators. Random tier: rapidcheck sequences (<= 90 ops) of insert/remove/find/len/traverse(pre,post,in,iterate; early stop +/-)/iterator(remove, abandon)/clear/free+new over 32 keys; user comparator over ints with equal keys at distinct addresses, default comparator over arbitrary 64-bit pointer values incl. pairs 2^31, 2^32, k*2^32 apart and >= 2^63. Oracle: std::map under the mathematical order; in-order == sorted model with stored-element identity; pre-order must be a BST pre-order whose post-order equals the reported one; destructor log by pointer; allocator accounting (header + one node per element). Non-trivial = removal (plain or iterator) of a two-children node with a destructor set, or any insert under the default comparator; distinct = distinct case text.";
    E.gen = gen_case;
    E.eval = eval_case;
    E.to_text = to_text;
    E.from_text = from_text;
    E.default_cases = [](const rt::Args &a) { return a.tier == "thorough" ? 100000L : 4000L; };
    E.exhaustive = exhaustive;
    E.hang_is_failure = true;
    return rcm::run(argc, argv, E);
}
#endif // !FUZZ_TARGET

#ifdef FUZZ_TARGET
#include <fuzzer/FuzzedDataProvider.h>
extern "C" int LLVMFuzzerTestOneInput(const uint8_t *data, size_t size) {
    FuzzedDataProvider fdp(data, size);
    Case c; c.cmp = fdp.ConsumeBool(); c.dtor = fdp.ConsumeBool();
    while (fdp.remaining_bytes() > 0 && c.ops.size() < 100) {
        Op o; o.code = fdp.ConsumeIntegralInRange<int>(0, NCODES - 1);
        switch (o.code) {
        case INSERT: case REMOVE: case FIND: o.a = {fdp.ConsumeIntegralInRange<long>(0, NKEYS - 1)}; break;
        case TRAVERSE: o.a = {fdp.ConsumeIntegralInRange<long>(0, 3), fdp.ConsumeIntegralInRange<long>(0, 2), fdp.ConsumeIntegralInRange<long>(0, 12)}; break;
        case ITR: { int n = fdp.ConsumeIntegralInRange<int>(0, 16); for (int i = 0; i < n; i++) o.a.push_back(fdp.ConsumeIntegralInRange<long>(0, 1)); break; }
        default: break;
        }
        c.ops.push_back(o);
    }
    rt::Args a;
    const std::string text = to_text(c);
    rt::fuzz_pre(text);
    rt::Verdict v = eval_case(c, a);
    fuzz_account(text, v);
    return 0;
}
#endif
