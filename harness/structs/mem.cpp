// C10 — reference-counted blocks: refcount model + destructor log + allocator log + alignment predicate.
#include <sys/types.h>
#include <cstddef>
#include <map>
#include <set>
extern "C" {
#include <module/mem/mem.h>
}
#include "../common/rcmain.hpp"
#include "../common/caseio.hpp"
#include "../common/track.hpp"
#include "../common/gens.hpp"

using cio::Op;

enum Code {
    NEW = 0,   // a0 = size, a1 = has dtor, a2 = parent selector (0 none, k>0: adopted by the k-th live block that has a destructor)
    REF,       // a0 = block selector
    UNREF,     // a0 = block selector
    UNREFP,    // a0 = block selector
    SIZE,      // a0 = block selector
    NULLS,     // null-argument calls
    NCODES
};
static const char *code_names[] = {"new", "ref", "unref", "unrefp", "size", "nulls"};

struct Case { int misaligned = 0; std::vector<Op> ops; };

static std::string to_text(const Case &c) {
    std::ostringstream o; o << "mem1\nmisaligned " << c.misaligned << "\n";
    for (auto &op : c.ops) { o << "op " << code_names[op.code]; for (long v : op.a) o << " " << v; o << "\n"; }
    return o.str();
}
static bool from_text(const std::string &s, Case &c) {
    cio::Text t;
    if (!cio::parse(s, t) || t.magic != "mem1") return false;
    c.misaligned = cio::hdr_long(t, "misaligned", 0);
    for (auto &o : t.ops) {
        Op op; op.code = -1;
        for (int i = 0; i < NCODES; i++) if (o.first == code_names[i]) op.code = i;
        if (op.code < 0) return false;
        op.a = o.second; c.ops.push_back(op);
    }
    return true;
}
void showValue(const Case &c, std::ostream &os) { os << to_text(c); }

struct Block {
    int id; uint8_t *p; size_t size; bool has_dtor; void *alloc; // underlying allocation
    long refs;                 // model reference count
    std::vector<int> children; // blocks this one's destructor releases
    int dtor_calls = 0; bool freed = false; bool dtor_before_free_ok = true;
};

struct Runner;
static Runner *g_run;

struct Runner {
    const Case &c;
    rt::Verdict v;
    std::vector<Block> blocks;
    std::map<void *, int> by_ptr, by_alloc;
    int step = 0;
    bool nt = false; std::set<std::string> cls;
    std::set<int> residues;
    std::vector<int> acquire_order;

    Runner(const Case &cc) : c(cc) {}
    void fail(const char *rule, const std::string &m) { std::ostringstream o; o << "step " << step << ": " << m; v.fail(std::string("C10.") + rule, o.str()); }
    static uint8_t pat(int id, size_t i) { return (uint8_t)(id * 31 + i * 7 + 3); }
    bool pattern_ok(Block &b, bool full) {
        size_t n = b.size;
        if (n >= ((size_t)1 << 26)) full = false; // huge blocks: only the edges carry the pattern
        if (full || n <= 256) { for (size_t i = 0; i < n; i++) if (b.p[i] != pat(b.id, i)) return false; return true; }
        for (size_t i = 0; i < 64; i++) if (b.p[i] != pat(b.id, i) || b.p[n - 1 - i] != pat(b.id, n - 1 - i)) return false;
        return true;
    }
    std::vector<int> live() { std::vector<int> o; for (auto &b : blocks) if (b.refs > 0) o.push_back(b.id); return o; }
    int pick(long sel) { auto l = live(); if (l.empty()) return -1; return l[(size_t)(sel % (long)l.size())]; }

    static void dtor_cb(void *p) { g_run->on_dtor(p); }
    void on_dtor(void *p) {
        auto it = by_ptr.find(p);
        if (it == by_ptr.end()) { fail("DTOR", "destructor called with a pointer that is not a block"); return; }
        Block &b = blocks[it->second];
        b.dtor_calls++;
        if (b.refs != 0) fail("DTOR", "destructor of block " + std::to_string(b.id) + " ran while the model still counts " + std::to_string(b.refs) + " references");
        if (b.freed) { fail("DTOR", "destructor of block " + std::to_string(b.id) + " ran after its memory went back to the allocator"); return; }
        if (!pattern_ok(b, true)) fail("DTOR", "block " + std::to_string(b.id) + " content damaged when its destructor runs");
        if (m_mem_size(p) != b.size) fail("SIZE", "m_mem_size inside the destructor differs from the requested size");
        // nested blocks: release the children (copy the list: the vector of blocks may not be resized here, but be safe)
        std::vector<int> kids = b.children;
        if (!kids.empty()) { cls.insert("nested-dtor"); nt = true; }
        for (int k : kids) release(k, 0);
    }
    void on_free(void *a) {
        auto it = by_alloc.find(a);
        if (it == by_alloc.end()) return;
        Block &b = blocks[it->second];
        if (b.freed) return;
        b.freed = true;
        if (b.refs != 0) fail("LIFE", "memory of block " + std::to_string(b.id) + " released while the model counts " + std::to_string(b.refs) + " references");
        if (b.has_dtor && b.dtor_calls != 1) fail("DTOR", "memory of block " + std::to_string(b.id) + " released with " + std::to_string(b.dtor_calls) + " destructor calls");
        by_alloc.erase(it);
    }
    // drop one reference of block id through unref (how=0) or unrefp (how=1)
    void release(int id, int how) {
        Block &b = blocks[id];
        if (b.refs <= 0) { return; }
        b.refs--;
        bool last = b.refs == 0;
        if (last) {
            // released in an order different from acquisition?
            if (!acquire_order.empty() && acquire_order.front() != id) cls.insert("out-of-order-release");
            for (auto it = acquire_order.begin(); it != acquire_order.end(); ++it) if (*it == id) { acquire_order.erase(it); break; }
        }
        uint8_t *p = b.p;
        if (how == 0) { void *r = m_mem_unref(p); if (r) fail("RET", "m_mem_unref did not return NULL"); }
        else { void *q = p; m_mem_unrefp(&q); if (q) fail("RET", "m_mem_unrefp did not reset the pointer"); }
        Block &b2 = blocks[id];
        if (last) {
            if (!b2.freed) fail("LIFE", "block " + std::to_string(id) + " not released although its last reference was dropped");
            if (b2.has_dtor && b2.dtor_calls != 1) fail("DTOR", "destructor of block " + std::to_string(id) + " ran " + std::to_string(b2.dtor_calls) + " times at the last unref");
            by_ptr.erase(p);
        } else {
            if (b2.freed) fail("LIFE", "block " + std::to_string(id) + " released while " + std::to_string(b2.refs) + " references remain");
            if (b2.dtor_calls) fail("DTOR", "destructor of block " + std::to_string(id) + " ran while references remain");
        }
    }
    void check_all() {
        for (auto &b : blocks) {
            if (b.refs > 0) {
                if (b.freed) { fail("LIFE", "block " + std::to_string(b.id) + " released while referenced"); return; }
                if (!pattern_ok(b, false)) { fail("LIFE", "content of live block " + std::to_string(b.id) + " changed"); return; }
                if (m_mem_size(b.p) != b.size) { fail("SIZE", "m_mem_size of block " + std::to_string(b.id) + " = " + std::to_string(m_mem_size(b.p)) + ", requested " + std::to_string(b.size)); return; }
            }
        }
        if (!track::st().error.empty()) fail("ALLOC", track::st().error);
    }

    rt::Verdict run() {
        g_run = this;
        track::st().error.clear();
        track::st().misaligned = c.misaligned;
        size_t base_live = track::live_count();
        track::st().on_free = [this](void *a) { on_free(a); };
        blocks.reserve(c.ops.size() + 1);
        for (size_t i = 0; i < c.ops.size() && v.ok; i++) {
            step = (int)i;
            const Op &op = c.ops[i];
            switch (op.code) {
            case NEW: {
                if (live().size() >= 12) break;
                size_t size = (size_t)op.arg(0);
                bool has_dtor = op.arg(1) != 0;
                size_t before = track::st().n_alloc;
                uint8_t *p = (uint8_t *)m_mem_new(size, has_dtor ? dtor_cb : nullptr);
                if (!p) { fail("RET", "m_mem_new(" + std::to_string(size) + ") returned NULL"); break; }
                if (track::st().n_alloc != before + 1) { fail("ALLOC", "m_mem_new performed " + std::to_string(track::st().n_alloc - before) + " allocations"); break; }
                Block b; b.id = (int)blocks.size(); b.p = p; b.size = size; b.has_dtor = has_dtor; b.alloc = track::st().last_alloc; b.refs = 1;
                residues.insert((int)(size % alignof(max_align_t)));
                if (((uintptr_t)p) % alignof(max_align_t) != 0) { fail("ALIGN", "block of size " + std::to_string(size) + " at " + std::to_string((uintptr_t)p % 64) + " mod 64 is not aligned to max_align_t (" + std::to_string(alignof(max_align_t)) + ")"); }
                if (p < (uint8_t *)b.alloc || p + size > (uint8_t *)b.alloc + track::st().last_alloc_size) fail("ALLOC", "user area not inside the allocation");
                if (m_mem_size(p) != size) fail("SIZE", "m_mem_size = " + std::to_string(m_mem_size(p)) + " for a block requested with " + std::to_string(size));

                if (size >= ((size_t)1 << 26)) { for (size_t j = 0; j < 64; j++) { p[j] = pat(b.id, j); p[size - 1 - j] = pat(b.id, size - 1 - j); } cls.insert("huge-block"); }
                else for (size_t j = 0; j < size; j++) p[j] = pat(b.id, j);
                blocks.push_back(b); by_ptr[p] = b.id; by_alloc[b.alloc] = b.id; acquire_order.push_back(b.id);
                // adoption: the parent's destructor will release this block
                if (op.arg(2) > 0) {
                    std::vector<int> parents; for (auto &x : blocks) if (x.refs > 0 && x.has_dtor && x.id != b.id) parents.push_back(x.id);
                    if (!parents.empty()) { int par = parents[(size_t)(op.arg(2) % (long)parents.size())]; blocks[par].children.push_back(b.id); cls.insert("adopted"); }
                }
                check_all();
                break; }
            case REF: {
                int id = pick(op.arg(0)); if (id < 0) break;
                void *r = m_mem_ref(blocks[id].p);
                if (r != blocks[id].p) fail("RET", "m_mem_ref returned a different pointer");
                blocks[id].refs++;
                if (blocks[id].refs >= 2) cls.insert("refs>=2");
                check_all();
                break; }
            case UNREF: case UNREFP: {
                int id = pick(op.arg(0)); if (id < 0) break;
                // a child owned by a parent's destructor keeps that one reference for the parent
                bool owned = false; for (auto &x : blocks) if (x.refs > 0) for (int k : x.children) if (k == id) owned = true;
                if (owned && blocks[id].refs <= 1) break;
                release(id, op.code == UNREFP);
                check_all();
                break; }
            case SIZE: { int id = pick(op.arg(0)); if (id >= 0 && m_mem_size(blocks[id].p) != blocks[id].size) fail("SIZE", "m_mem_size mismatch"); break; }
            case NULLS: {
                if (m_mem_ref(nullptr) || m_mem_unref(nullptr) || m_mem_size(nullptr) != 0) fail("RET", "NULL argument not tolerated");
                m_mem_unrefp(nullptr); void *q = nullptr; m_mem_unrefp(&q);
                if (q) fail("RET", "unrefp(NULL) changed the pointer");
                check_all();
                break; }
            }
        }
        // teardown: release everything the harness still holds (roots first; children go with their parents)
        step = (int)c.ops.size();
        for (int guard = 0; guard < 1000 && v.ok; guard++) {
            int victim = -1;
            for (auto &b : blocks) {
                if (b.refs <= 0) continue;
                bool owned = false; for (auto &x : blocks) if (x.refs > 0) for (int k : x.children) if (k == b.id) owned = true;
                if (!owned || b.refs > 1) { victim = b.id; break; }
            }
            if (victim < 0) break;
            release(victim, guard & 1);
        }
        if (v.ok) for (auto &b : blocks) if (b.refs > 0) { fail("HARNESS", "teardown left block " + std::to_string(b.id)); break; }
        if (v.ok) for (auto &b : blocks) {
            if (!b.freed) { fail("LEAK", "block " + std::to_string(b.id) + " never went back to the allocator"); break; }
            if (b.has_dtor && b.dtor_calls != 1) { fail("DTOR", "destructor of block " + std::to_string(b.id) + " ran " + std::to_string(b.dtor_calls) + " times"); break; }
        }
        if (v.ok && track::live_count() != base_live) fail("LEAK", std::to_string(track::live_count() - base_live) + " allocations outstanding at the end");
        if (v.ok && !track::st().error.empty()) fail("ALLOC", track::st().error);
        track::st().on_free = nullptr; track::st().misaligned = false;
        if (cls.count("refs>=2") && cls.count("out-of-order-release")) nt = true;
        v.nontrivial = nt;
        for (auto &s : cls) v.classes.push_back(s);
        for (int r : residues) v.classes.push_back("size%16=" + std::to_string(r));
        if (c.misaligned) v.classes.push_back("min-aligned-allocator");
        return v;
    }
};

static rt::Verdict eval_case(const Case &c, const rt::Args &) {
    static bool inst = false;
    if (!inst) { track::install(); inst = true; }
    Runner r(c);
    return r.run();
}

#ifndef FUZZ_TARGET
static rc::Gen<long> gen_size() {
    using namespace rc;
    return gens::weighted<long>({
        {6, gens::range<long>(0, 65)},
        {3, gen::map(gens::range<long>(0, 48), [](long d) { return 112 + d; })},
        {2, gen::map(gens::range<long>(0, 48), [](long d) { return 1008 + d; })},
        {2, gen::map(gens::range<long>(0, 48), [](long d) { return 4080 + d; })},
        {2, gens::range<long>(0, 8193)},
    });
}
static rc::Gen<Op> gen_op() {
    using namespace rc;
    auto mk = [](int code, std::vector<long> a = {}) { Op o; o.code = code; o.a = a; return o; };
    auto sel = gens::range<long>(0, 12);
    std::vector<std::pair<size_t, Gen<Op>>> w;
    w.push_back({30, gen::map(gen::tuple(gen_size(), gens::range<long>(0, 3), gens::weighted_values<long>({{3, 0}, {1, 1}, {1, 2}, {1, 3}})), [=](std::tuple<long, long, long> t) { return mk(NEW, {std::get<0>(t), std::get<1>(t) != 0, std::get<2>(t)}); })});
    w.push_back({20, gen::map(sel, [=](long s) { return mk(REF, {s}); })});
    w.push_back({25, gen::map(sel, [=](long s) { return mk(UNREF, {s}); })});
    w.push_back({10, gen::map(sel, [=](long s) { return mk(UNREFP, {s}); })});
    w.push_back({3, gen::map(sel, [=](long s) { return mk(SIZE, {s}); })});
    w.push_back({1, gen::just(mk(NULLS))});
    return gens::weighted<Op>(w);
}
static rc::Gen<Case> gen_case(const rt::Args &) {
    using namespace rc;
    return gen::map(gen::pair(gens::range(0, 2), gen::container<std::vector<Op>>(gen_op())), [](std::pair<int, std::vector<Op>> p) {
        Case c; c.misaligned = p.first; c.ops = p.second; if (c.ops.size() > 70) c.ops.resize(70); return c; });
}

// Exhaustive sweep: every size 0..4200 (all residues mod the maximum alignment), both allocators, with and without destructor.
static bool exhaustive(const rt::Args &args, rt::Stats &stats, rt::Failure &failure) {
    auto mk = [](int code, std::vector<long> a = {}) { Op o; o.code = code; o.a = a; return o; };
    long N = args.tier == "thorough" ? 8300 : 4200;
    uint64_t total = 0;
    for (long size = args.shard; size <= N; size += args.nshards)
        for (int mis = 0; mis < 2; mis++) {
            Case c; c.misaligned = mis;
            c.ops = {mk(NEW, {size, 1, 0}), mk(REF, {0}), mk(NEW, {size, 0, 0}), mk(UNREF, {0}), mk(SIZE, {1}), mk(UNREFP, {0})};
            rt::watch_tick(&c);
            rt::Verdict v = args.fork_per_case ? rt::run_forked(args.prop, [&] { return eval_case(c, args); }) : eval_case(c, args);
            total++;
            v.nontrivial = true; // every size is its own case of the alignment/size clause
            stats.record(to_text(c), v);
            if (!v.ok) { failure.present = true; failure.rule = v.rule; failure.message = v.message; failure.text = to_text(c); return false; }
        }
    // sizes beyond 32 bits ("the reported size always equals the requested size"): backed by untouched address space
    if (args.shard == 0) for (long size : {(long)1 << 32, ((long)1 << 32) + 24, ((long)1 << 33) + 5, ((long)1 << 31) + 3}) {
        Case c; c.misaligned = 0;
        c.ops = {mk(NEW, {size, 1, 0}), mk(REF, {0}), mk(SIZE, {0}), mk(UNREF, {0}), mk(SIZE, {0}), mk(UNREFP, {0})};
        rt::Verdict v = rt::run_forked(args.prop, [&] { return eval_case(c, args); });
        total++; v.nontrivial = true; stats.record(to_text(c), v);
        if (!v.ok) { failure.present = true; failure.rule = v.rule; failure.message = v.message; failure.text = to_text(c); return false; }
    }
    stats.exhaustive = true;
    stats.exhaustive_note = "every requested size 0.." + std::to_string(N) + " with both allocator alignments (new, ref, second block, unref, size, unrefp), plus four sizes beyond 2^31 / 2^32 / 2^33";
    stats.counters["exhaustive_sizes_x_allocators"] = total;
    return true;
}

int main(int argc, char **argv) {
    rcm::Engine<Case> E;
    E.rule_text = "Exhaustive sweep over every requested size 0..4200 (thorough 0..8300) x {malloc, allocator that returns only 16-byte (never 32-byte) aligned memory}; random tier: rapidcheck sequences (<= 70 ops) of new(size over all residues mod 16 around 0..64, 128, 1024, 4096 and random <= 8192; with/without destructor; optionally adopted by a parent whose destructor releases it, trees of several levels)/ref/unref/unrefp/size/null calls on a population of <= 12 blocks. Oracle: integer refcount model; creation -> non-NULL, aligned to max_align_t, m_mem_size == requested, whole area writable; content pattern intact while referenced; at the last unref the destructor runs exactly once, before the single allocator free of the underlying allocation, on intact content; nothing outstanding at the end. Non-trivial = a block reached >= 2 references and blocks were released in an order different from acquisition, or a nested destructor ran (sweep cases: each size is its own case); distinct = distinct case text.";
    E.gen = gen_case;
    E.eval = eval_case;
    E.to_text = to_text;
    E.from_text = from_text;
    E.default_cases = [](const rt::Args &a) { return a.tier == "thorough" ? 300000L : 30000L; };
    E.exhaustive = exhaustive;
    E.hang_is_failure = true;
    return rcm::run(argc, argv, E);
}
#endif // !FUZZ_TARGET

#ifdef FUZZ_TARGET
#include <fuzzer/FuzzedDataProvider.h>
extern "C" int LLVMFuzzerTestOneInput(const uint8_t *data, size_t size) {
    FuzzedDataProvider fdp(data, size);
    Case c; c.misaligned = fdp.ConsumeBool();
    while (fdp.remaining_bytes() > 0 && c.ops.size() < 80) {
        Op o; o.code = fdp.ConsumeIntegralInRange<int>(0, NCODES - 1);
        if (o.code == NEW) o.a = {fdp.ConsumeIntegralInRange<long>(0, 8192), fdp.ConsumeIntegralInRange<long>(0, 1), fdp.ConsumeIntegralInRange<long>(0, 3)};
        else o.a = {fdp.ConsumeIntegralInRange<long>(0, 11)};
        c.ops.push_back(o);
    }
    rt::Args a;
    const std::string text = to_text(c);
    rt::fuzz_pre(text);
    rt::Verdict v = eval_case(c, a);
    fuzz_account(text, v);
    return 0;
}
#endif
