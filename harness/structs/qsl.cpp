// C12 — queue, stack, list: model-based test (bounded-exhaustive tier + rapidcheck random tier).
#include <sys/types.h>
#include <deque>
#include <algorithm>
extern "C" {
#include <module/structs/queue.h>
#include <module/structs/stack.h>
#include <module/structs/list.h>
}
#include "../common/rcmain.hpp"
#include "../common/caseio.hpp"
#include "../common/track.hpp"
#include "../common/gens.hpp"

using cio::Op;

enum Kind { KQ = 0, KS = 1, KL = 2 };
enum Code {
    ADD = 0,     // enqueue / push / insert (fresh element)
    TAKE,        // dequeue / pop  (queue, stack)
    PEEK,        // queue, stack
    LEN,
    REMOVE,      // queue/stack: remove head (dtor);  list: a[0]=selector (0 = miss, k>0 = k-th live element by pointer, <0 = by comparator-equal fresh element)
    CLEAR,
    ITERATE,     // a[0] = mode (0 all, 1 stop(+), 2 abort(-)), a[1] = position
    ITRP,        // a[0] = position class (0 first, 1 middle, 2 last), a[1] = action (1 rm, 2 set, 0 get-only, 3 insert, 4 insert+rm)
    ITR,         // a[] = per-position actions (0 keep,1 rm,2 set,3 insert,4 insert+rm,5 abandon)
    FIND,        // list: like REMOVE selector
    ADDNULL,     // add NULL: must be refused without effect
    NCODES
};
static const char *code_names[] = {"add", "take", "peek", "len", "remove", "clear", "iterate", "itrp", "itr", "find", "addnull"};

struct Case {
    int kind = KQ;
    int dtor = 1;
    int cmp = 0;
    std::vector<Op> ops;
};

static std::string to_text(const Case &c) {
    std::ostringstream o;
    o << "qsl1\nkind " << c.kind << "\ndtor " << c.dtor << "\ncmp " << c.cmp << "\n";
    for (auto &op : c.ops) { o << "op " << code_names[op.code]; for (long v : op.a) o << " " << v; o << "\n"; }
    return o.str();
}
static bool from_text(const std::string &s, Case &c) {
    cio::Text t;
    if (!cio::parse(s, t) || t.magic != "qsl1") return false;
    c.kind = cio::hdr_long(t, "kind", 0); c.dtor = cio::hdr_long(t, "dtor", 1); c.cmp = cio::hdr_long(t, "cmp", 0);
    for (auto &o : t.ops) {
        Op op; op.code = -1;
        for (int i = 0; i < NCODES; i++) if (o.first == code_names[i]) op.code = i;
        if (op.code < 0) return false;
        op.a = o.second; c.ops.push_back(op);
    }
    return true;
}
void showValue(const Case &c, std::ostream &os) { os << to_text(c); }

// ---- element arena and destructor log ----
static const int ARENA = 2048;
static int arena[ARENA + 1];
static int dtor_count[ARENA + 1];
static int bad_dtor_arg;
static inline int id_of(void *p) {
    if (p < (void *)&arena[1] || p > (void *)&arena[ARENA]) return -1;
    return (int)((int *)p - arena);
}
static void log_dtor(void *p) { int id = id_of(p); if (id < 1) bad_dtor_arg++; else dtor_count[id]++; }
static int cmp_eq(void *a, void *b) { return *(int *)a - *(int *)b; } // 0 when equal class
// asymmetric comparator (cmp 2): called as (user data, list element) per list.h; matches the first element whose class is not below the key's
static int cmp_ge(void *key, void *elem) { return *(int *)elem >= *(int *)key ? 0 : 1; }
static inline bool cmp_match(int mode, int keyval, int elemval) { return mode == 1 ? keyval == elemval : mode == 2 ? elemval >= keyval : false; }

struct Collect { std::vector<int> seen; int mode; int pos; };
static int collect_cb(void *up, void *data) {
    Collect *c = (Collect *)up;
    c->seen.push_back(id_of(data));
    if (c->mode == 1 && (int)c->seen.size() - 1 == c->pos) return 1;
    if (c->mode == 2 && (int)c->seen.size() - 1 == c->pos) return -7;
    return 0;
}

static std::string seq_str(const std::vector<int> &v) { std::ostringstream o; o << "["; for (size_t i = 0; i < v.size(); i++) o << (i ? "," : "") << v[i]; o << "]"; return o.str(); }

struct Runner {
    const Case &c;
    rt::Verdict v;
    m_queue_t *q = nullptr; m_stack_t *s = nullptr; m_list_t *l = nullptr;
    std::vector<int> seq;            // model, container order (index 0 = queue head / stack top / list first)
    int next_id = 1;
    // expected destructor calls: exp_min..exp_max per id
    std::vector<int> exp_min, exp_max;
    bool edge_edit = false, later_op = false; int step = 0;
    bool used_insert = false;

    Runner(const Case &cc) : c(cc), exp_min(ARENA + 1, 0), exp_max(ARENA + 1, 0) {}

    void fail(const char *rule, const std::string &m) {
        std::ostringstream o; o << "step " << step << ": " << m; v.fail(std::string("C12.") + rule, o.str());
    }
    int fresh() { int id = next_id++; if (id > ARENA) { id = ARENA; } arena[id] = id % 3; return id; }
    void dropped(int id) { exp_min[id]++; exp_max[id]++; }
    void replaced(int id) { exp_max[id]++; } // statement is silent on destructor for overwritten elements

    ssize_t len() { return c.kind == KQ ? m_queue_len(q) : c.kind == KS ? m_stack_len(s) : m_list_len(l); }
    std::vector<int> readback() {
        Collect col{{}, 0, 0};
        if (c.kind == KQ) m_queue_iterate(q, collect_cb, &col);
        else if (c.kind == KS) m_stack_iterate(s, collect_cb, &col);
        else m_list_iterate(l, collect_cb, &col);
        return col.seen;
    }
    void check_state(const char *what) {
        if (!v.ok) return;
        ssize_t n = len();
        if (n != (ssize_t)seq.size()) { fail("LEN", std::string(what) + ": length " + std::to_string(n) + " but model has " + std::to_string(seq.size())); return; }
        auto rb = readback();
        if (rb != seq) fail("CONTENT", std::string(what) + ": content " + seq_str(rb) + " but model has " + seq_str(seq));
    }
    int add_raw(int id) {
        void *p = id ? (void *)&arena[id] : nullptr;
        return c.kind == KQ ? m_queue_enqueue(q, p) : c.kind == KS ? m_stack_push(s, p) : m_list_insert(l, p);
    }
    void do_add() {
        int id = fresh();
        int ret = add_raw(id);
        if (ret != 0) { fail("RET", "add returned " + std::to_string(ret)); return; }
        if (c.kind == KQ) seq.push_back(id);
        else if (c.kind == KS) seq.insert(seq.begin(), id);
        else {
            // list: the new element may be placed anywhere; the others keep their relative order
            auto rb = readback();
            std::vector<int> without;
            int at = -1;
            for (size_t i = 0; i < rb.size(); i++) { if (rb[i] == id && at < 0) at = (int)i; else without.push_back(rb[i]); }
            if (at < 0 || without != seq) { fail("CONTENT", "insert: content " + seq_str(rb) + " is not model " + seq_str(seq) + " plus element " + std::to_string(id)); return; }
            seq = rb;
        }
        check_state("add");
    }
    // list selector -> pointer to search for, and the index the model expects to hit (-1 miss)
    void *select(long sel, int &expect_idx) {
        expect_idx = -1;
        if (sel > 0 && !seq.empty()) {
            int k = (int)((sel - 1) % (long)seq.size());
            int id = seq[k];
            // first element that matches by comparator or pointer
            for (size_t i = 0; i < seq.size(); i++) {
                if (seq[i] == id || cmp_match(c.cmp, arena[id], arena[seq[i]])) { expect_idx = (int)i; break; }
            }
            return &arena[id];
        }
        int id = fresh();
        if (sel < 0 && c.cmp) {
            arena[id] = (int)((-sel) % 3);
            for (size_t i = 0; i < seq.size(); i++) if (cmp_match(c.cmp, arena[id], arena[seq[i]])) { expect_idx = (int)i; break; }
        } else {
            arena[id] = 1000 + id; // equal to nothing
        }
        return &arena[id];
    }

    void itr_session(const std::vector<long> &acts, int posclass, int posaction) {
        // Generic walk.  At each position: get, optional edit, next.
        void *itr = c.kind == KQ ? (void *)m_queue_itr_new(q) : c.kind == KS ? (void *)m_stack_itr_new(s) : (void *)m_list_itr_new(l);
        if ((itr == nullptr) != seq.empty()) { fail("ITR", std::string("itr_new returned ") + (itr ? "an iterator" : "NULL") + " for a container of " + std::to_string(seq.size())); if (itr) free_itr(itr); return; }
        if (!itr) return;
        size_t pos = 0;
        int target = -1;
        if (posclass >= 0) target = posclass == 0 ? 0 : posclass == 1 ? (int)seq.size() / 2 : (int)seq.size() - 1;
        size_t nact = 0;
        int guard = 0;
        while (itr && v.ok) {
            if (++guard > 5000) { fail("ITR", "iterator does not terminate"); break; }
            if (pos >= seq.size()) { fail("ITR", "iterator still valid after the last element (model " + seq_str(seq) + ")"); free_itr(itr); itr = nullptr; break; }
            void *d = c.kind == KQ ? m_queue_itr_get_data((m_queue_itr_t *)itr) : c.kind == KS ? m_stack_itr_get_data((m_stack_itr_t *)itr) : m_list_itr_get_data((m_list_itr_t *)itr);
            if (id_of(d) != seq[pos]) { fail("ITR", "iterator at position " + std::to_string(pos) + " yields " + std::to_string(id_of(d)) + ", expected " + std::to_string(seq[pos]) + " of " + seq_str(seq)); break; }
            long act = 0;
            if (posclass >= 0) { act = ((int)pos == target) ? posaction : 0; if ((int)pos == target) target = -2; }
            else act = nact < acts.size() ? acts[nact] : 0;
            nact++;
            if (c.kind != KL && (act == 3 || act == 4)) act = 0;
            bool at_edge = (pos == 0 || pos + 1 == seq.size());
            bool ins_plain = false;
            int ret = 0;
            switch (act) {
            case 1: {
                ret = c.kind == KQ ? m_queue_itr_remove((m_queue_itr_t *)itr) : c.kind == KS ? m_stack_itr_remove((m_stack_itr_t *)itr) : m_list_itr_remove((m_list_itr_t *)itr);
                if (ret != 0) { fail("RET", "itr_remove returned " + std::to_string(ret)); break; }
                dropped(seq[pos]); seq.erase(seq.begin() + pos);
                if (at_edge) edge_edit = true;
                check_state("itr_remove");
                break; }
            case 2: {
                int id = fresh();
                ret = c.kind == KQ ? m_queue_itr_set_data((m_queue_itr_t *)itr, &arena[id]) : c.kind == KS ? m_stack_itr_set_data((m_stack_itr_t *)itr, &arena[id]) : m_list_itr_set_data((m_list_itr_t *)itr, &arena[id]);
                if (ret != 0) { fail("RET", "itr_set_data returned " + std::to_string(ret)); break; }
                replaced(seq[pos]); seq[pos] = id;
                if (at_edge) edge_edit = true;
                check_state("itr_set_data");
                break; }
            case 3: case 4: {
                used_insert = true;
                int id = fresh();
                ret = m_list_itr_insert((m_list_itr_t *)itr, &arena[id]);
                if (ret != 0) { fail("RET", "itr_insert returned " + std::to_string(ret)); break; }
                // the repository's own test documents that the inserted node becomes the current one, placed before the old current
                seq.insert(seq.begin() + pos, id);
                if (at_edge) edge_edit = true;
                check_state("itr_insert");
                if (!v.ok) break;
                void *d2 = m_list_itr_get_data((m_list_itr_t *)itr);
                if (id_of(d2) != id) { fail("ITR", "after itr_insert the current element is " + std::to_string(id_of(d2)) + ", expected the inserted " + std::to_string(id)); break; }
                if (act == 4) {
                    ret = m_list_itr_remove((m_list_itr_t *)itr);
                    if (ret != 0) { fail("RET", "itr_remove after insert returned " + std::to_string(ret)); break; }
                    dropped(id); seq.erase(seq.begin() + pos);
                    check_state("itr_insert+remove");
                } else ins_plain = true;
                break; }
            case 5:
                free_itr(itr); itr = nullptr;
                break;
            default: break;
            }
            if (!v.ok || !itr) break;
            // next
            if (c.kind == KQ) { m_queue_itr_t *i = (m_queue_itr_t *)itr; m_queue_itr_next(&i); itr = i; }
            else if (c.kind == KS) { m_stack_itr_t *i = (m_stack_itr_t *)itr; m_stack_itr_next(&i); itr = i; }
            else { m_list_itr_t *i = (m_list_itr_t *)itr; m_list_itr_next(&i); itr = i; }
            if (act == 1) { /* current already is the successor */ }
            else if (ins_plain) {
                // spec corner: re-visiting the element that was current before the insert is accepted, so is skipping to its successor
                size_t a1 = pos + 1, a2 = pos + 2;
                if (!itr) { if (a2 < seq.size()) fail("ITR", "iterator ended after insert with unvisited elements left"); pos = seq.size(); break; }
                void *d3 = m_list_itr_get_data((m_list_itr_t *)itr);
                if (a1 < seq.size() && id_of(d3) == seq[a1]) pos = a1;
                else if (a2 < seq.size() && id_of(d3) == seq[a2]) pos = a2;
                else { fail("ITR", "after insert+next the iterator yields " + std::to_string(id_of(d3)) + " in " + seq_str(seq)); break; }
                continue;
            } else pos++;
            if (!itr && pos < seq.size()) { fail("ITR", "iterator ended at position " + std::to_string(pos) + " of " + seq_str(seq)); break; }
        }
        if (itr && !v.ok) { free_itr(itr); }
    }
    void free_itr(void *itr) { track::t_free(itr); }

    rt::Verdict run() {
        memset(dtor_count, 0, sizeof dtor_count); bad_dtor_arg = 0;
        size_t base_live = track::live_count();
        track::st().error.clear();
        if (c.kind == KQ) q = m_queue_new(c.dtor ? log_dtor : nullptr);
        else if (c.kind == KS) s = m_stack_new(c.dtor ? log_dtor : nullptr);
        else l = m_list_new(c.cmp == 2 ? cmp_ge : c.cmp ? cmp_eq : nullptr, c.dtor ? log_dtor : nullptr);
        if (!q && !s && !l) { v.fail("C12.RET", "constructor returned NULL"); return v; }
        check_state("new");
        size_t nops = c.ops.size();
        for (size_t i = 0; i < nops + 1 && v.ok; i++) {
            step = (int)i;
            if (i == nops) { aftermath(); break; }
            const Op &op = c.ops[i];
            if (edge_edit) later_op = true;
            switch (op.code) {
            case ADD: do_add(); break;
            case ADDNULL: { int r = add_raw(0); if (r >= 0) fail("RET", "adding NULL returned " + std::to_string(r)); check_state("add NULL"); break; }
            case TAKE: case PEEK: {
                if (c.kind == KL) break;
                void *p = op.code == TAKE ? (c.kind == KQ ? m_queue_dequeue(q) : m_stack_pop(s)) : (c.kind == KQ ? m_queue_peek(q) : m_stack_peek(s));
                int exp = seq.empty() ? -1 : seq[0];
                if (id_of(p) != exp || (seq.empty() && p)) { fail("ORDER", std::string(op.code == TAKE ? "take" : "peek") + " returned element " + std::to_string(id_of(p)) + ", model expects " + std::to_string(exp) + " of " + seq_str(seq)); break; }
                if (op.code == TAKE && !seq.empty()) seq.erase(seq.begin()); // handed back to the caller: never destroyed
                check_state("take/peek");
                break; }
            case LEN: check_state("len"); break;
            case REMOVE: case FIND: {
                if (c.kind != KL) {
                    if (op.code == FIND) break;
                    int r = c.kind == KQ ? m_queue_remove(q) : m_stack_remove(s);
                    if (seq.empty()) { if (r == 0) fail("RET", "remove on empty container returned 0"); }
                    else { if (r != 0) { fail("RET", "remove returned " + std::to_string(r)); break; } dropped(seq[0]); seq.erase(seq.begin()); }
                    check_state("remove");
                    break;
                }
                int exp; void *p = select(op.arg(0), exp);
                if (op.code == FIND) {
                    void *f = m_list_find(l, p);
                    int e = exp < 0 ? -1 : seq[exp];
                    if (id_of(f) != e || (exp < 0 && f)) fail("FIND", "find returned element " + std::to_string(id_of(f)) + ", model expects " + std::to_string(e) + " in " + seq_str(seq));
                    check_state("find");
                } else {
                    int r = m_list_remove(l, p);
                    if (exp < 0) { if (r == 0) fail("RET", "remove of an absent element returned 0"); }
                    else { if (r != 0) { fail("RET", "remove of a present element returned " + std::to_string(r)); break; } dropped(seq[exp]); seq.erase(seq.begin() + exp); }
                    check_state("remove");
                }
                break; }
            case CLEAR: {
                int r = c.kind == KQ ? m_queue_clear(q) : c.kind == KS ? m_stack_clear(s) : m_list_clear(l);
                if (!seq.empty() && r != 0) { fail("RET", "clear returned " + std::to_string(r)); break; }
                for (int id : seq) dropped(id);
                seq.clear();
                check_state("clear");
                break; }
            case ITERATE: {
                Collect col{{}, (int)op.arg(0), seq.empty() ? 0 : (int)(op.arg(1) % (long)seq.size())};
                int r = c.kind == KQ ? m_queue_iterate(q, collect_cb, &col) : c.kind == KS ? m_stack_iterate(s, collect_cb, &col) : m_list_iterate(l, collect_cb, &col);
                std::vector<int> exp = seq;
                if (col.mode != 0 && !seq.empty()) exp.resize(col.pos + 1);
                if (col.seen != exp) { fail("ITERATE", "iterate visited " + seq_str(col.seen) + ", expected " + seq_str(exp)); break; }
                if (!seq.empty()) {
                    int er = col.mode == 2 ? -7 : 0;
                    if (r != er) fail("RET", "iterate returned " + std::to_string(r) + ", expected " + std::to_string(er));
                }
                check_state("iterate");
                break; }
            case ITRP: itr_session({}, (int)op.arg(0), (int)op.arg(1)); check_state("itr session"); break;
            case ITR: itr_session(op.a, -1, 0); check_state("itr session"); break;
            default: break;
            }
            if (!track::st().error.empty()) fail("ALLOC", track::st().error);
        }
        // free
        if (v.ok || true) {
            step = (int)nops + 1;
            for (int id : seq) dropped(id);
            int r = c.kind == KQ ? m_queue_free(&q) : c.kind == KS ? m_stack_free(&s) : m_list_free(&l);
            if (v.ok) {
                if (r != 0 || q || s || l) fail("RET", "free returned " + std::to_string(r) + " or left the handle set");
                if (c.dtor) {
                    if (bad_dtor_arg) fail("DTOR", "destructor called with a pointer that is not an element");
                    for (int id = 1; id < next_id && id <= ARENA; id++)
                        if (dtor_count[id] < exp_min[id] || dtor_count[id] > exp_max[id]) {
                            fail("DTOR", "element " + std::to_string(id) + " destroyed " + std::to_string(dtor_count[id]) + " times, expected " + std::to_string(exp_min[id]) + (exp_max[id] != exp_min[id] ? ".." + std::to_string(exp_max[id]) : ""));
                            break;
                        }
                }
                if (!track::st().error.empty()) fail("ALLOC", track::st().error);
                if (track::live_count() != base_live) fail("LEAK", std::to_string(track::live_count() - base_live) + " allocations outstanding after free");
            }
        }
        v.nontrivial = edge_edit && later_op;
        if (edge_edit) v.classes.push_back("iterator-edit-at-end");
        if (used_insert) v.classes.push_back("itr-insert");
        v.classes.push_back(c.kind == KQ ? "queue" : c.kind == KS ? "stack" : "list");
        return v;
    }
    void aftermath() {
        // fixed suffix: add two fresh elements, read back, drain in discipline order
        if (edge_edit) later_op = true;
        do_add(); if (!v.ok) return;
        do_add(); if (!v.ok) return;
        if (c.kind == KL) return;
        while (!seq.empty() && v.ok) {
            void *p = c.kind == KQ ? m_queue_dequeue(q) : m_stack_pop(s);
            if (id_of(p) != seq[0]) { fail("ORDER", "aftermath drain returned " + std::to_string(id_of(p)) + ", expected " + std::to_string(seq[0]) + " of " + seq_str(seq)); return; }
            seq.erase(seq.begin());
        }
        void *p = c.kind == KQ ? m_queue_dequeue(q) : m_stack_pop(s);
        if (p) fail("ORDER", "aftermath: container not empty after draining");
        check_state("aftermath");
    }
};

static rt::Verdict eval_case(const Case &c, const rt::Args &) {
    static bool inst = false;
    if (!inst) { track::install(); inst = true; }
    Runner r(c);
    return r.run();
}

// ---------------- generators ----------------
#ifndef FUZZ_TARGET
static rc::Gen<Op> gen_op(int kind) {
    using namespace rc;
    auto small = [](int n) { return gen::resize(100, gen::inRange<long>(0, n)); };
    std::vector<std::pair<size_t, Gen<Op>>> w;
    auto mk = [](int code, std::vector<long> a = {}) { Op o; o.code = code; o.a = a; return o; };
    w.push_back({30, gen::just(mk(ADD))});
    if (kind != KL) {
        w.push_back({10, gen::just(mk(TAKE))});
        w.push_back({3, gen::just(mk(PEEK))});
        w.push_back({6, gen::just(mk(REMOVE))});
    } else {
        w.push_back({10, gen::map(gen::resize(100, gen::inRange<long>(-3, 12)), [mk](long s) { return mk(REMOVE, {s}); })});
        w.push_back({5, gen::map(gen::resize(100, gen::inRange<long>(-3, 12)), [mk](long s) { return mk(FIND, {s}); })});
    }
    w.push_back({2, gen::just(mk(LEN))});
    w.push_back({2, gen::just(mk(CLEAR))});
    w.push_back({1, gen::just(mk(ADDNULL))});
    w.push_back({3, gen::map(gen::pair(small(3), small(8)), [mk](std::pair<long, long> p) { return mk(ITERATE, {p.first, p.second}); })});
    int maxact = kind == KL ? 5 : 3;
    w.push_back({8, gen::map(gen::pair(small(3), small(maxact)), [mk](std::pair<long, long> p) { return mk(ITRP, {p.first, p.second}); })});
    w.push_back({10, gen::map(gen::resize(100, gen::container<std::vector<long>>(gens::weighted_values<long>({{5, 0}, {4, 1}, {3, 2}, {(size_t)(kind == KL ? 3 : 0), 3}, {(size_t)(kind == KL ? 2 : 0), 4}, {1, 5}}))),
                          [mk](std::vector<long> a) { if (a.size() > 12) a.resize(12); return mk(ITR, a); })});
    return gens::weighted<Op>(w);
}

static rc::Gen<Case> gen_case(const rt::Args &) {
    using namespace rc;
    return gen::mapcat(gen::tuple(gen::resize(100, gen::inRange(0, 3)), gen::resize(100, gen::inRange(0, 4)), gen::resize(100, gen::inRange(0, 3))),
                       [](std::tuple<int, int, int> t) {
                           int kind = std::get<0>(t);
                           return gen::map(gen::container<std::vector<Op>>(gen_op(kind)), [=](std::vector<Op> ops) {
                               Case c; c.kind = kind; c.dtor = std::get<1>(t) != 0; c.cmp = std::get<2>(t);
                               if (ops.size() > 80) ops.resize(80);
                               c.ops = ops; return c;
                           });
                       });
}

// ---------------- bounded-exhaustive tier ----------------
static std::vector<Op> alphabet(int kind, int cmp) {
    std::vector<Op> al;
    auto mk = [](int code, std::vector<long> a = {}) { Op o; o.code = code; o.a = a; return o; };
    al.push_back(mk(ADD));
    if (kind != KL) { al.push_back(mk(TAKE)); al.push_back(mk(PEEK)); al.push_back(mk(REMOVE)); }
    else {
        al.push_back(mk(REMOVE, {1})); al.push_back(mk(REMOVE, {2})); al.push_back(mk(REMOVE, {0}));
        al.push_back(mk(FIND, {2}));
        if (cmp) { al.push_back(mk(REMOVE, {-1})); al.push_back(mk(FIND, {-2})); }
    }
    al.push_back(mk(LEN));
    al.push_back(mk(CLEAR));
    al.push_back(mk(ITERATE, {0, 0}));
    for (long p = 0; p < 3; p++) for (long a = 0; a < 3; a++) al.push_back(mk(ITRP, {p, a}));
    if (kind == KL) for (long p = 0; p < 3; p++) { al.push_back(mk(ITRP, {p, 3})); al.push_back(mk(ITRP, {p, 4})); }
    return al;
}

static bool exhaustive(const rt::Args &args, rt::Stats &stats, rt::Failure &failure) {
    int L = args.tier == "thorough" ? 6 : 5;
    if (const char *e = getenv("VERIF_C12_L")) L = atoi(e);
    // configurations: queue, stack, list without and with comparator; destructor always logging
    struct Cfg { int kind, cmp; };
    std::vector<Cfg> cfgs = {{KQ, 0}, {KS, 0}, {KL, 0}, {KL, 1}, {KL, 2}};
    uint64_t total = 0;
    for (auto cfg : cfgs) {
        auto al = alphabet(cfg.kind, cfg.cmp);
        int LL = (cfg.kind == KL) ? L - 1 : L; // the list alphabet is larger
        size_t A = al.size();
        // enumerate all sequences of length 1..LL; shard by index of the sequence modulo nshards
        for (int len = 1; len <= LL; len++) {
            uint64_t count = 1; for (int i = 0; i < len; i++) count *= A;
            for (uint64_t n = args.shard; n < count; n += args.nshards) {
                Case c; c.kind = cfg.kind; c.cmp = cfg.cmp; c.dtor = 1;
                uint64_t x = n;
                for (int i = 0; i < len; i++) { c.ops.push_back(al[x % A]); x /= A; }
                rt::watch_tick(&c);
                rt::Verdict v = args.fork_per_case ? rt::run_forked(args.prop, [&] { return eval_case(c, args); }) : eval_case(c, args);
                total++;
                // full text only for the rare recorded ones: hashing every text would dominate the run
                if (v.nontrivial || !v.ok) stats.record(to_text(c), v); else { stats.evaluations++; }
                if (!v.ok) {
                    failure.present = true; failure.rule = v.rule; failure.message = v.message; failure.text = to_text(c);
                    stats.exhaustive = false;
                    return false;
                }
            }
        }
    }
    stats.exhaustive = true;
    stats.exhaustive_note = "all operation sequences of length <= " + std::to_string(L) + " (lists: " + std::to_string(L - 1) + ") over the fixed alphabets (queue/stack 16 symbols, list 25/27 symbols), each followed by the aftermath suffix";
    stats.counters["exhaustive_sequences"] = total;
    return true;
}

int main(int argc, char **argv) {
    rcm::Engine<Case> E;
    E.rule_text = "Bounded-exhaustive tier: every op sequence up to length L over {add,take,peek,remove,len,clear,iterate,itr(first|middle|last x get|rm|set[|insert|insert+rm])} for queue, stack, list (with/without comparator); random tier: rapidcheck sequences up to 80 ops with multi-edit iterator sessions. Oracle: std::vector model in container order, read-back after every step, destructor log, allocator balance, fixed aftermath suffix. Non-trivial = an iterator edit (remove/set/insert) at the first or last position followed by at least one later operation on the same container; distinct = distinct case text.";
    E.gen = gen_case;
    E.eval = eval_case;
    E.to_text = to_text;
    E.from_text = from_text;
    E.default_cases = [](const rt::Args &a) { return a.tier == "thorough" ? 150000L : 6000L; };
    E.exhaustive = exhaustive;
    E.hang_is_failure = true;
    return rcm::run(argc, argv, E);
}
#endif // !FUZZ_TARGET

#ifdef FUZZ_TARGET
#include <fuzzer/FuzzedDataProvider.h>
extern "C" int LLVMFuzzerTestOneInput(const uint8_t *data, size_t size) {
    FuzzedDataProvider fdp(data, size);
    Case c; c.kind = fdp.ConsumeIntegralInRange<int>(0, 2); c.dtor = fdp.ConsumeBool(); c.cmp = fdp.ConsumeIntegralInRange<int>(0, 2);
    while (fdp.remaining_bytes() > 0 && c.ops.size() < 100) {
        Op o; o.code = fdp.ConsumeIntegralInRange<int>(0, NCODES - 1);
        switch (o.code) {
        case REMOVE: case FIND: o.a = {fdp.ConsumeIntegralInRange<long>(-3, 12)}; break;
        case ITERATE: o.a = {fdp.ConsumeIntegralInRange<long>(0, 2), fdp.ConsumeIntegralInRange<long>(0, 8)}; break;
        case ITRP: o.a = {fdp.ConsumeIntegralInRange<long>(0, 2), fdp.ConsumeIntegralInRange<long>(0, 4)}; break;
        case ITR: { int n = fdp.ConsumeIntegralInRange<int>(0, 12); for (int i = 0; i < n; i++) o.a.push_back(fdp.ConsumeIntegralInRange<long>(0, 5)); break; }
        default: break;
        }
        c.ops.push_back(o);
    }
    rt::Args a;
    const std::string text = to_text(c);
    rt::fuzz_pre(text);
    rt::Verdict v = eval_case(c, a);
    fuzz_account(text, v);
    return 0;
}
#endif
