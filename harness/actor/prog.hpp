// Engine B — "actor programs": program representation and text form.
#pragma once
#include <cstdint>
#include <sstream>
#include <string>
#include <vector>

namespace prog {

enum OpCode {
    // context
    O_CTX_REG = 0,   // a = ctx flags
    O_CTX_DEREG,
    O_CTX_FINALIZE,
    O_QUIT,          // a = code
    O_DISPATCH,      // a = number of dispatch calls (top level only), b = polling fault injected into the first call (0 none, 1 EINTR, 2 EAGAIN, 3 EBADF, 4 ENOMEM)
    O_DRAIN,         // dispatch until a call reports no event (top level only)
    O_LOOP,          // blocking m_ctx_loop (top level only; the driver module takes over)
    O_SET_TICK,      // a = period in ms (0 = off)
    O_CTX_PROBE,     // calls the read-only context API (name, len, stats, userdata, dump) and checks the answers
    // module life cycle
    O_REG,           // s = slot, a = module flags (harness encoding), b = take an extra user reference
    O_DEREG,         // s
    O_START, O_PAUSE, O_RESUME, O_STOP, // s
    O_PILL,          // s -> t
    // pub/sub
    O_SUB,           // s, a = topic index, b = flags (bits 0-1: prio 0 default,1 low,2 norm,3 high; bit 2 oneshot; bit 3 dup; bit 4 autofree userdata)
    O_UNSUB,         // s, a = topic index
    O_TELL,          // s -> t, a = autofree
    O_PUB,           // s, a = topic index, b = autofree
    O_BCAST,         // s, a = autofree
    O_FLOOD,         // s -> t, a = count
    // handler stack / stash
    O_BECOME,        // s, a = handler id 1..4, b = on a throttled module: number of unbecome/become pairs issued right after it
    O_UNBECOME,      // s
    O_STASH,         // s (only meaningful inside s' handler), a = index of the event in the current invocation
    O_UNSTASH,       // s, a = n (0 encodes SIZE_MAX)
    // batching
    O_BATCH_SIZE,    // s, a = size (-1 encodes SIZE_MAX)
    O_BATCH_TIMEOUT, // s, a = ms
    // references
    O_REF_EVT,       // inside a handler: retain event a of the current invocation
    O_DROP_EVT,      // drop the oldest retained event
    O_DROP_MODREF,   // s: drop one extra user reference of the oldest instance of slot s that has one
    O_LOOKUP,        // s looks up name of slot t
    // sources
    O_FD_REG,        // s, a = harness descriptor index, b = flags (bit0 autoclose, bit1 dup, bit2 oneshot, bit3 autofree userdata)
    O_FD_DEREG,      // s, a = descriptor index
    O_FD_WRITE,      // a = descriptor index (makes it readable)
    O_FD_READ,       // a = descriptor index (drains it)
    O_TMR_REG,       // s, a = period index, b = flags (bit2 oneshot, bits 0-1 prio)
    O_TMR_DEREG,     // s, a = period index
    O_SRC_REG,       // s, a = kind (3 sgn,4 path,5 pid,6 task,7 thresh), b = key index   (registry profile: arbitrary keys)
    O_SRC_DEREG,     // s, a = kind, b = key index
    O_SRC_LEN,       // s
    O_TASK_RELEASE,  // a = task index: lets a latched task function finish
    O_SRC_FIRE,      // a = kind (3 signal, 4 path, 5 pid), b = key index: makes the kernel object behind a live source ready
    // timing / throttling
    O_SLEEP,         // a = ms (top level only)
    O_SET_TB,        // s, a = rate, b = burst
    O_ERRNO,         // a = errno value to leave behind (scripts)
    O_NOP,
    O_NCODES
};

static const char *const op_names[O_NCODES] = {
    "ctx_reg", "ctx_dereg", "ctx_finalize", "quit", "dispatch", "drain", "loop", "set_tick", "ctx_probe",
    "reg", "dereg", "start", "pause", "resume", "stop", "pill",
    "sub", "unsub", "tell", "pub", "bcast", "flood",
    "become", "unbecome", "stash", "unstash",
    "batch_size", "batch_timeout",
    "ref_evt", "drop_evt", "drop_modref", "lookup",
    "fd_reg", "fd_dereg", "fd_write", "fd_read", "tmr_reg", "tmr_dereg", "src_reg", "src_dereg", "src_len", "task_release", "src_fire",
    "sleep", "set_tb", "errno", "nop",
};

struct Op {
    int code = O_NOP;
    int s = 0, t = 0;
    long a = 0, b = 0;
};

enum CbKind { CB_EVAL = 0, CB_START, CB_STOP, CB_EVT, CB_NKINDS };
static const char *const cb_names[CB_NKINDS] = {"eval", "start", "stop", "evt"};

struct Script {
    std::vector<Op> ops;
    int ret = 1;    // eval/start: the boolean the callback returns
    int err = 0;    // errno value left behind when the callback returns (0: untouched)
};

static const int MAX_MODS = 4;

struct ModCfg {
    int hooks = 0; // bit0 on_eval present, bit1 on_start present, bit2 on_stop present
    std::vector<Script> scripts[CB_NKINDS]; // indexed by invocation count of that callback kind on this slot
};

struct Prog {
    int nmods = 2;
    ModCfg mods[MAX_MODS];
    std::vector<Op> ops;
    std::string profile; // informational
    int strict = 0;      // 1: known-finding exclusions off (used by the known-finding probes)
    int names = 0;       // 1: module names steered (guarded map hook) so that slots 0/1 and 2/3 share a home slot in the context's module map
    int cyc = 0;         // 1: callback scripts repeat cyclically for the first 24 invocations (invocation k runs script k mod n); 0: only the first n invocations are scripted
};

inline void op_text(std::ostringstream &o, const char *kw, const Op &op) {
    o << kw << " " << op_names[op.code] << " " << op.s << " " << op.t << " " << op.a << " " << op.b << "\n";
}

inline std::string to_text(const Prog &p) {
    std::ostringstream o;
    o << "actor1\n";
    if (!p.profile.empty()) o << "profile " << p.profile << "\n";
    if (p.strict) o << "strict " << p.strict << "\n";
    if (p.cyc) o << "cyc " << p.cyc << "\n";
    if (p.names) o << "names " << p.names << "\n";
    o << "nmods " << p.nmods << "\n";
    for (int i = 0; i < p.nmods; i++) o << "mod " << i << " hooks " << p.mods[i].hooks << "\n";
    for (int i = 0; i < p.nmods; i++)
        for (int k = 0; k < CB_NKINDS; k++)
            for (size_t n = 0; n < p.mods[i].scripts[k].size(); n++) {
                const Script &s = p.mods[i].scripts[k][n];
                if (s.ops.empty() && s.ret == 1 && s.err == 0) continue;
                o << "script " << i << " " << cb_names[k] << " " << n << " ret " << s.ret << " errno " << s.err << "\n";
                for (auto &op : s.ops) op_text(o, " sop", op);
            }
    for (auto &op : p.ops) op_text(o, "op", op);
    return o.str();
}

inline bool parse_op(std::istringstream &ls, Op &op) {
    std::string name;
    if (!(ls >> name)) return false;
    op.code = -1;
    for (int i = 0; i < O_NCODES; i++) if (name == op_names[i]) op.code = i;
    if (op.code < 0) return false;
    ls >> op.s >> op.t >> op.a >> op.b;
    return true;
}

inline bool from_text(const std::string &text, Prog &p) {
    std::istringstream ss(text);
    std::string line;
    bool magic = false;
    Script *cur = nullptr;
    p = Prog();
    while (std::getline(ss, line)) {
        if (line.empty() || line[0] == '#') continue;
        std::istringstream ls(line);
        std::string w; ls >> w;
        if (!magic) { if (w != "actor1") return false; magic = true; continue; }
        if (w == "profile") { ls >> p.profile; }
        else if (w == "strict") { ls >> p.strict; }
        else if (w == "cyc") { ls >> p.cyc; }
        else if (w == "names") { ls >> p.names; }
        else if (w == "nmods") { ls >> p.nmods; if (p.nmods < 0 || p.nmods > MAX_MODS) return false; }
        else if (w == "mod") { int i; std::string h; ls >> i >> h; if (i < 0 || i >= MAX_MODS) return false; ls >> p.mods[i].hooks; }
        else if (w == "script") {
            int i, n; std::string kind, r, e; ls >> i >> kind >> n;
            int k = -1; for (int j = 0; j < CB_NKINDS; j++) if (kind == cb_names[j]) k = j;
            if (k < 0 || i < 0 || i >= MAX_MODS || n < 0 || n > 64) return false;
            auto &v = p.mods[i].scripts[k];
            if ((int)v.size() <= n) v.resize(n + 1);
            cur = &v[n];
            ls >> r >> cur->ret >> e >> cur->err;
        }
        else if (w == "sop") { Op op; if (!cur || !parse_op(ls, op)) return false; cur->ops.push_back(op); }
        else if (w == "op") { Op op; if (!parse_op(ls, op)) return false; p.ops.push_back(op); cur = nullptr; }
        else return false;
    }
    return magic;
}

// topic alphabet shared by generator, executor and model
static const char *const topics[] = {
    "a", "b", "ac", "bc", "a.*", "^b$", "[ab]c", "c",
    "LIBMODULE_MOD_STARTED", "LIBMODULE_MOD_STOPPED", "LIBMODULE_CTX_STARTED", "LIBMODULE_CTX_STOPPED", "LIBMODULE_CTX_TICK",
    "LIBMODULE_MOD_.*", "LIBMODULE_.*", "a[", "LIBMODULE_X",
};
static const int NTOPICS = sizeof(topics) / sizeof(*topics);
static const int TOPIC_FIRST_SYS = 8;
static const int TOPIC_INVALID_RE = 15;

} // namespace prog
