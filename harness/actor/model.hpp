// Engine B — reference-model data structures (written from the property statements and docs).
#pragma once
#include <sys/types.h>
#include <regex.h>
#include <deque>
#include <map>
#include <set>
#include <string>
#include <vector>
#include <functional>
extern "C" {
#include <module/mod.h>
#include <module/ctx.h>
#include <module/mem/mem.h>
}
#include "prog.hpp"

// The library's own regcomp/regfree calls are counted through link-time wrappers (C04: compiled expressions bypass the memhook);
// the model's expressions go to the real functions directly.
extern "C" int __real_regcomp(regex_t *, const char *, int);
extern "C" void __real_regfree(regex_t *);
static inline int h_regcomp(regex_t *r, const char *p, int f) { return __real_regcomp(r, p, f); }
static inline void h_regfree(regex_t *r) { __real_regfree(r); }

namespace model {

enum { PRIO_LOW = 1, PRIO_NORM = 2, PRIO_HIGH = 4 };

struct Inst;

struct Sub {
    std::string topic;
    int prio = PRIO_NORM;
    bool oneshot = false;
    long token = 0;        // user data given at subscription (identifies which subscription matched)
    long serial = 0;       // identity of this subscription instance
    regex_t re; bool re_ok = false;
    int lib_flags = 0;
    bool maybe_gone = false;  // one-shot subscription whose message was read but discarded: the library may have retired it
};

struct Msg {
    long serial = 0;
    Inst *sender = nullptr;       // NULL for context notifications
    bool has_topic = false;
    std::string topic;
    long payload = 0;             // payload cell id, 0 for system messages (NULL data)
    bool sys = false;
    bool optional = false;        // may legitimately never be delivered (overflow, allowed-not-required notification)
    bool floating = false;        // optional and without a known position (caused by a transition that could not be observed when it happened)
    bool late = false;            // accepted while the loop was already stopping
    bool pill = false;
    bool doomed = false;          // pending for a module that is PAUSED while the loop stops: discarded unless the module is resumed in time
    int epoch = 0;                // loop run during which it was accepted
    struct Via { std::string sub_topic; long token; int prio; bool oneshot; long sub_serial; };
    std::vector<Via> via;         // subscriptions of the recipient that matched when the message was accepted (empty: direct / broadcast)
};

struct EvRec {                    // what a handler saw for one event
    const m_evt_t *evt = nullptr;
    int type = 0;
    const void *userdata = nullptr;
    // PS
    bool sys = false; const m_mod_t *sender = nullptr; std::string topic; bool has_topic = false; const void *data = nullptr;
    // others
    long key = 0;                 // fd / ns / signo / pid / tid
    Msg msg;                      // matched model message (PS)
    bool is_ps = false;
    int prio = PRIO_NORM;
    long expect_key_check(int kind, long ki) const;
};

struct Payload {
    long id = 0; bool autofree = false; void *ptr = nullptr;
    int holders = 0;              // undelivered entries + deliveries in progress + retained/stashed events
    int frees = 0;
    bool ever_sent = false;
};

struct FdSrc { int idx; int fd; bool autoclose, dup, oneshot; long token; };
struct TmrSrc { int idx; bool oneshot; int prio; long token; };
struct LiveSrc { int kind; long key; long token; bool oneshot; int prio; bool fired = false; };

struct Inst {
    int id = 0;                   // index in the executor's instance table
    int ctx_gen = 0;              // which context registration it belongs to
    int slot = 0;
    std::string name;
    int hflags = 0;               // harness flag encoding
    int lib_flags = 0;
    int hooks = 0;
    m_mod_t *h = nullptr;         // user reference handed out by m_mod_register (NULL once given back)
    m_mod_t *raw = nullptr;       // identity (valid while h or an extra reference is held)
    int extra = 0;                // extra references taken by the harness with m_mem_ref
    bool registered = false;      // present in the context
    int state = 0;                // model state (M_MOD_* value), 0 before registration
    std::map<std::string, Sub> subs;
    std::deque<Msg> mailbox;      // accepted, not yet delivered, in accept order
    std::vector<int> hstack;      // become stack of handler ids
    std::deque<EvRec> stash;
    long batch_size = 0;          // as configured through the setter (0: none)
    long batch_timeout_ms = 0;
    bool batch_changed = false;   // settings changed since the accumulation started
    bool batch_ever = false;      // batching was configured at some point of this registration (events may sit accumulated)
    bool tmr_maybe_retired(const TmrSrc &t) const { return t.oneshot && (t.prio == PRIO_LOW || (t.prio == PRIO_NORM && batch_ever)); } // expiry read by the library, event still accumulated
    double batch_timer_set_at = 0; long batch_timer_flushes = 0; // timer-caused invocations since the timeout was (re)configured
    int expect_start = 0;         // 1: the next observation must be this module's start callback
    int expect_stop = 0;          // 1: stop callback allowed next, 2: required next
    std::vector<std::function<void()>> after_stop; // model steps that follow the (possible) stop callback
    bool in_stop_cb = false;
    int expect_unstash = -1;      // number of events the nested handler invocation must carry
    bool unstash_seen = false;
    std::map<int, FdSrc> fds;     // keyed by descriptor index
    std::map<int, TmrSrc> tmrs;   // keyed by period index
    std::set<std::pair<int, long>> other_srcs; // (kind, key index) for the registry profile
    std::set<long> retired_tokens; // user data of sources deregistered while the module kept running: their already accumulated events may still arrive
    std::map<std::pair<int, long>, LiveSrc> live_srcs; // signal / path / pid / task / threshold sources backed by real kernel objects
    // token bucket
    long tb_rate = 0, tb_burst = 0; bool tb_on = false; long tb_refused = 0; double tb_last_call_at = 0, tb_running_since = 0; int tb_dispatches_since_call = 0;
    std::vector<std::pair<double, double>> tb_calls; // (t_before, t_after) of accepted consuming calls since configuration
    uint64_t sent = 0, recv = 0;
    int handler_invocations = 0;
    int ps_delivered = 0, ps_invocations = 0; std::set<const void *> ps_senders; // C08 classification
    bool c17_deep = false, c17_changed = false;
    bool resumed_while_stopping = false;
    bool tb_no_recovery = false; // a burst of 0 was asked for: no token is ever replenished (or the request was refused and nothing says what it left behind): no recovery obligation
    bool tb_refused_batch_setter = false; // a batch size / timeout setter of this module was refused with EAGAIN (no effect allowed)
    bool pill_in_progress = false; // the handler that receives what was accumulated ahead of a poison pill is running / has just run
    long ticks_seen = 0;          // tick notifications received since the tick was (re)armed
    bool deny_ctx() const;
};

struct Ctx {
    bool exists = false;
    bool looping = false;
    bool quit = false; int quit_code = 0;
    bool finalized = false;
    int flags = 0;
    int running = 0;
    int registered = 0;
    long tick_ms = 0;
    int epoch = 0;
    bool stopping = false;        // inside the dispatch call that stops the loop
};

} // namespace model
