// Engine B — executor + lock-step reference model.  One case = one forked child (see gen.cpp).
#include <climits>
#include <signal.h>
#include <semaphore.h>
#include <sys/wait.h>
#include <sys/prctl.h>
#include <poll.h>
#include <algorithm>
#include "exec.hpp"

Exec *g_exec = nullptr;

// every close() issued by library code goes through here (-Wl,--wrap=close): ownership log for C20
extern "C" int __real_close(int fd);
extern "C" int __wrap_close(int fd) {
    int r = __real_close(fd);
    int e = errno;
    if (g_exec && !g_exec->harness_closing) g_exec->on_lib_close(fd, r, e);
    errno = e;
    return r;
}

// injected polling failures (-Wl,--wrap=epoll_wait): the next epoll_wait call of the library fails with the armed errno value (C03.5)
#include <sys/epoll.h>
int g_inject_poll_errno = 0; long g_injected_poll_faults = 0;
extern "C" int __real_epoll_wait(int epfd, struct epoll_event *events, int maxevents, int timeout);
extern "C" int __wrap_epoll_wait(int epfd, struct epoll_event *events, int maxevents, int timeout) {
    if (g_inject_poll_errno) { int e = g_inject_poll_errno; g_inject_poll_errno = 0; g_injected_poll_faults++; errno = e; return -1; }
    return __real_epoll_wait(epfd, events, maxevents, timeout);
}

// compiled regular expressions held by the library (libc allocations that bypass the memhook): every successful regcomp issued by library
// code must be matched by a regfree by the time everything is torn down (-Wl,--wrap=regcomp,--wrap=regfree)
long g_lib_regex_live = 0;
extern "C" int __wrap_regcomp(regex_t *r, const char *p, int f) { int rc = __real_regcomp(r, p, f); if (rc == 0) g_lib_regex_live++; return rc; }
extern "C" void __wrap_regfree(regex_t *r) { g_lib_regex_live--; __real_regfree(r); }

#include "exec_model.inc"
#include "exec_cb.inc"
#include "exec_ops.inc"
#include "exec_ops2.inc"

static const long tmr_period_ms[] = {1, 2, 3, 5, 20, 50};
static sem_t task_latch[3];
static int registry_task_fn(void *p) { (void)p; return 0; }

void Exec::payload_free_hook(void *p) {
    Exec *E = g_exec; if (!E) return;
    auto it = E->payload_by_ptr.find(p);
    if (it == E->payload_by_ptr.end()) return;
    Payload &pl = E->payloads[it->second];
    pl.frees++;
    E->trace("payload " + std::to_string(pl.id) + " released (holders " + std::to_string(pl.holders) + ")");
    // judged at the next point where the model has caught up with what the library did inside the current call
    if (pl.holders > 0) E->pending_free_checks.push_back(pl.id);
}

void Exec::check_pending_frees() {
    if (ctx_teardown || !ok()) return;
    for (long id : pending_free_checks) {
        Payload &pl = payloads[id];
        if (pl.holders > 0) { fail("C02.5", "auto-free payload " + std::to_string(pl.id) + " was released while " + std::to_string(pl.holders) + " recipient(s) still have it pending, in delivery or retained"); break; }
    }
    pending_free_checks.clear();
}

bool Exec::timers_active() { return false; }

void Exec::on_lib_close(int fd, int r, int e) {
    trace("lib close(" + std::to_string(fd) + ") -> " + std::to_string(r));
    if (r != 0) { fail("C20.1", "the library closed descriptor " + std::to_string(fd) + " which is not open (errno " + std::to_string(e) + "): double close or a descriptor it never owned"); return; }
    if (fds_before.count(fd)) { fail("C20.1", "the library closed descriptor " + std::to_string(fd) + " which was open before the context existed"); return; }
    for (int k = 0; k < 8; k++) {
        if (harness_fd[k][1] == fd) { fail("C20.1", "the library closed the harness' own descriptor " + std::to_string(fd) + " (write end of a pipe it was never given)"); return; }
        if (harness_fd[k][0] == fd && refused_fd_reg == k) { fail("C20.2", "a refused (duplicate) registration of descriptor " + std::to_string(fd) + " closed it: rejected registrations must leave no trace"); return; }
        if (harness_fd[k][0] == fd) {
            // a user descriptor: only legitimate for a registration made with the auto-close flag
            bool autoclose_reg = false;
            for (auto &i : insts) { auto it = i.fds.find(k); if (it != i.fds.end() && it->second.autoclose && !it->second.dup) autoclose_reg = true; }
            if (harness_fd_open[k] && !autoclose_reg && !autoclose_pending[k]) { fail("C20.2", "the library closed user descriptor " + std::to_string(fd) + " although it was not registered with M_SRC_FD_AUTOCLOSE"); return; }
            if (autoclose_closed[k]) { fail("C20.2", "auto-close descriptor " + std::to_string(fd) + " closed more than once"); return; }
            autoclose_closed[k] = true; autoclose_pending[k] = false; harness_fd_open[k] = false;
            harness_fd[k][0] = -1; // the number may be reused by anybody from now on
            cls.insert("autoclose-fd-closed-by-library"); nt["C20"] = true;
        }
    }
}

std::set<int> Exec::open_fds() {
    std::set<int> s;
    DIR *d = opendir("/proc/self/fd");
    if (!d) return s;
    int dfd = dirfd(d);
    while (struct dirent *e = readdir(d)) { if (e->d_name[0] == '.') continue; int fd = atoi(e->d_name); if (fd != dfd) s.insert(fd); }
    closedir(d);
    return s;
}

void Exec::drop_retained(size_t i) {
    const m_evt_t *e = retained_evts[i]; EvRec &r = retained_recs[i];
    // C04.3: a retained event keeps its content for as long as the user holds the reference
    bool same = e->type == (m_src_types)r.type && e->userdata == r.userdata;
    if (same && r.is_ps) same = e->ps_evt && e->ps_evt->data == r.data && e->ps_evt->sender == r.sender && e->ps_evt->system == r.sys && ((e->ps_evt->topic != nullptr) == r.has_topic) && (!r.has_topic || r.topic == e->ps_evt->topic);
    if (!same) fail("C04.3", "a retained event changed while the user held a reference on it");
    m_mem_unref((void *)e);
    if (r.is_ps) payload_hold(r.msg.payload, -1);
    retained_evts.erase(retained_evts.begin() + i); retained_recs.erase(retained_recs.begin() + i);
}

void Exec::check_zombie_answers(Inst *x) {
    m_mod_t *h = handle(x);
    if (!h) return;
    if (x->state == M_MOD_ZOMBIE) {
        if (!m_mod_is(h, M_MOD_ZOMBIE)) fail("C04.3", "deregistered module " + iname(x) + " does not report ZOMBIE (state " + std::to_string(m_mod_state(h)) + ")");
        const char *nm = m_mod_name(h);
        if (!(x->lib_flags & M_MOD_NAME_DUP) || true) { if (!nm || x->name != nm) fail("C04.3", "zombie " + iname(x) + " does not answer its registration name"); }
    }
}

void Exec::probe(const char *where) {
    if (!ok()) return;
    for (auto &i : insts) {
        m_mod_t *h = handle(&i);
        if (!h) continue;
        int st = m_mod_state(h);
        if (st != i.state) { fail(nt_last_illegal ? "C01.2" : "C01.1", "after " + std::string(where) + ": module " + iname(&i) + " is " + state_name(st) + " but the state machine says " + state_name(i.state)); return; }
        if (i.state == M_MOD_ZOMBIE) check_zombie_answers(&i);
    }
    if (deny_ctx_active()) return;
    if (ctx.exists) {
        ssize_t len = m_ctx_len();
        if (len != ctx.registered) { fail("C07.4", "after " + std::string(where) + ": m_ctx_len = " + std::to_string(len) + ", " + std::to_string(ctx.registered) + " modules are registered"); return; }
        if (ctx.looping) {
            m_ctx_stats_t st;
            if (m_ctx_stats(&st) == 0) {
                if ((int)st.running_modules != ctx.running) { fail("C01.7", "after " + std::string(where) + ": context reports " + std::to_string(st.running_modules) + " running modules, " + std::to_string(ctx.running) + " modules are RUNNING"); return; }
            }
        }
    } else {
        if (m_ctx_name() != nullptr || m_ctx_len() >= 0) { fail("C07.2", "after " + std::string(where) + ": context getters answer although the thread has no context (name " + (m_ctx_name() ? "set" : "NULL") + ", len " + std::to_string(m_ctx_len()) + ")"); return; }
    }
    // C09.5 source counts
    for (auto &i : insts) {
        m_mod_t *h = handle(&i);
        if (!h || !mod_ok(this, &i)) continue;
        long want[M_SRC_TYPE_END] = {0}; long total = 0;
        want[M_SRC_TYPE_PS] = (long)i.subs.size(); want[M_SRC_TYPE_FD] = (long)i.fds.size(); want[M_SRC_TYPE_TMR] = (long)i.tmrs.size();
        for (auto &kv : i.other_srcs) want[kv.first]++;
        for (auto &kv : i.live_srcs) want[kv.first.first]++;
        for (int k = 0; k < M_SRC_TYPE_END; k++) total += want[k];
        // a one-shot subscription with a message still on its way may already have been retired by the library
        long slack = 0;
        for (auto &kv : i.subs) if (maybe_fired(&i, kv.second)) slack++;
        for (int k = 0; k <= M_SRC_TYPE_END; k++) {
            ssize_t got = m_mod_src_len(h, (m_src_types)k);
            long w = k == M_SRC_TYPE_END ? total : want[k];
            if ((k == M_SRC_TYPE_PS || k == M_SRC_TYPE_END) && got >= w - slack && got <= w) continue;
            // a one-shot live source whose kernel object became ready may already have been retired when its event was read
            long lslack = 0; for (auto &kv : i.live_srcs) if ((kv.first.first == k || k == M_SRC_TYPE_END) && kv.second.oneshot && (kv.second.fired || kv.first.first == M_SRC_TYPE_THRESH)) lslack++;
            // likewise a one-shot timer whose event is held back (low priority / batching) is gone from the registry once its expiry was read
            if (k == M_SRC_TYPE_TMR || k == M_SRC_TYPE_END) for (auto &kv : i.tmrs) if (i.tmr_maybe_retired(kv.second)) lslack++;
            if (k == M_SRC_TYPE_TMR && got >= w - lslack && got <= w) continue;
            if (k >= M_SRC_TYPE_SGN && got >= w - lslack - (k == M_SRC_TYPE_END ? slack : 0) && got <= w) continue;
            if (got != w) { fail(last_eagain_step == step ? "C18.2" : "C09.5", std::string(last_eagain_step == step ? "a call refused with EAGAIN had an effect: " : "") + "after " + std::string(where) + ": m_mod_src_len(" + iname(&i) + ", kind " + std::to_string(k) + ") = " + std::to_string(got) + ", the module has " + std::to_string(w) + " such sources registered"); return; }
        }
    }
}

// C18: counting bound b + r*t over every window of accepted token-consuming calls, on the harness clock
// (window measured from before the first call to after the last one: it can only over-estimate the true one)
void Exec::tb_after_call(Inst *S, const Op &op, int r, double t0) {
    double t1 = now();
    trace("  throttled call returned " + std::to_string(r));
    if (r == -EAGAIN) {
        cls.insert("tb-refused"); S->tb_refused++; last_eagain_step = step;
        // recovery: a module that stayed RUNNING in a looping context and whose refill timer had time to fire and be dispatched must be able to act again
        double period = 1.0 / (double)S->tb_rate;
        if (!S->tb_no_recovery && S->state == M_MOD_RUNNING && ctx.looping && S->tb_dispatches_since_call >= 1 && (t0 - S->tb_last_call_at) >= 3 * period + 0.05 && S->tb_running_since <= S->tb_last_call_at)
            fail("C18.3", "token-consuming call of " + iname(S) + " refused with EAGAIN although " + std::to_string((t0 - S->tb_last_call_at) * 1000) + "ms (>= 3 refill periods + 50ms) and " + std::to_string(S->tb_dispatches_since_call) + " complete dispatch(es) began after a refill was due since its previous call (rate " + std::to_string(S->tb_rate) + "/s, burst " + std::to_string(S->tb_burst) + ")");
        S->tb_last_call_at = t1; S->tb_dispatches_since_call = 0;
        return;
    }
    if (r != 0) { S->tb_last_call_at = t1; S->tb_dispatches_since_call = 0; return; }
    S->tb_calls.push_back({t0, t1});
    size_t j = S->tb_calls.size() - 1;
    for (size_t i = 0; i <= j; i++) {
        double window = S->tb_calls[j].second - S->tb_calls[i].first;
        double allowed = (double)S->tb_burst + (double)S->tb_rate * window * (1.0 + 1e-6);
        if ((double)(j - i + 1) > allowed + 1e-9 && (double)(j - i + 1) <= allowed + 1.0 + 1e-9 && !P.strict) {
            // known finding KF-C18-1: an expiry of the refill timer that fires while the bucket is full stays readable and is
            // credited later, so the effective burst is b + 1.  Exactly-one-over windows are excluded (counted); more is reported.
            cls.insert("excluded_by_known_finding:KF-C18-1"); excluded_kf++;
            continue;
        }
        if ((double)(j - i + 1) > allowed + 1e-9) {
            fail("C18.1", std::to_string(j - i + 1) + " token-consuming calls of " + iname(S) + " succeeded within " + std::to_string(window * 1000) + "ms although rate " + std::to_string(S->tb_rate) + "/s and burst " + std::to_string(S->tb_burst) + " allow at most " + std::to_string(allowed));
            return;
        }
    }
    if (S->tb_refused) { nt["C18"] = true; cls.insert("tb-accepted-after-refusal"); }
    S->tb_last_call_at = t1; S->tb_dispatches_since_call = 0;
    (void)op;
}

void Exec::do_op3(const Op &op, bool top, Inst *S, Inst *T, bool deny) {
    (void)T; (void)top;
    auto skip_if_deny = [&]() { if (deny) { counters_skipped++; cls.insert("skipped-under-deny-ctx"); } return deny; };
    switch (op.code) {
    case prog::O_FD_REG: case prog::O_FD_DEREG: {
        observe_pre();
        if (!S || !handle(S)) break;
        if (skip_if_deny()) break;
        int idx = (int)(((op.a % 8) + 8) % 8);
        if (autoclose_pending[idx]) { counters_skipped++; break; } // its auto-close is still outstanding (an event retains the source)
        if (!harness_fd_open[idx]) {
            harness_closing = true;
            if (harness_fd[idx][1] >= 0) { close(harness_fd[idx][1]); harness_fd[idx][1] = -1; }
            harness_closing = false;
            if (pipe2(harness_fd[idx], O_NONBLOCK | O_CLOEXEC) != 0) break;
            harness_fd_open[idx] = true; autoclose_closed[idx] = false;
            { struct stat st; fstat(harness_fd[idx][0], &st); harness_ino[idx] = st.st_ino; }
        }
        int fd = harness_fd[idx][0];
        bool legal = mod_ok(this, S);
        if (op.code == prog::O_FD_REG) {
            // a descriptor number is registered in at most one module at a time (documented precondition)
            bool elsewhere = false; for (auto &i : insts) if (&i != S && i.fds.count(idx)) elsewhere = true;
            if (elsewhere) { counters_skipped++; break; }
            bool present = S->fds.count(idx);
            long b = op.b;
            // what "the same key" means for a duplicated descriptor is not specified (the source is keyed by the duplicate's number)
            if (present && (S->fds[idx].dup || (b & 2))) { counters_skipped++; break; }
            // bit 10 of b: the descriptor given is one that cannot be polled (a regular file).  On a RUNNING module the registration has to be refused and must leave
            // no trace; on any other module it would be accepted and make the next start / resume fail half way (what such a module is, is not specified): not generated
            if ((b >> 10) & 1) {
                if (present || !legal || S->state != M_MOD_RUNNING || !ctx.looping || S->tb_on) { counters_skipped++; cls.insert("unpollable-descriptor-on-non-running-module:skipped"); break; }
                harness_closing = true; int ufd = open("/proc/self/exe", O_RDONLY | O_CLOEXEC); harness_closing = false;
                if (ufd < 0) break;
                int ulf = 0; if (b & 4) ulf |= M_SRC_ONESHOT; // (never auto-close: the descriptor stays the harness' own)
                int ur = m_mod_src_register_fd(handle(S), ufd, (m_src_flags)ulf, nullptr);
                trace("fd_reg of an unpollable descriptor -> " + std::to_string(ur));
                cls.insert("unpollable-descriptor-registration"); nt["C09"] = nt["C09"] || S->fds.size() >= 1;
                if (ur == 0) fail("C09.4", "m_mod_src_register_fd accepted a descriptor that cannot be polled on a RUNNING module");
                else {
                    // no trace: the same number can be registered again only if nothing of the refused registration stayed behind
                    int again = m_mod_src_register_fd(handle(S), ufd, (m_src_flags)ulf, nullptr);
                    if (again == -EEXIST) fail("C09.4", "a refused registration of descriptor " + std::to_string(ufd) + " left the source registered (a second attempt answers -EEXIST)");
                }
                struct stat ust; if (fstat(ufd, &ust) != 0) fail("C20.2", "the library closed a descriptor whose registration it refused");
                harness_closing = true; close(ufd); harness_closing = false;
                break; // (the probe that follows compares the source counts)
            }
            refused_fd_reg = present ? idx : -1; // a refused registration leaves no trace: in particular it must not close the descriptor
            int lf = 0; if (b & 1) lf |= M_SRC_FD_AUTOCLOSE; if (b & 2) lf |= M_SRC_DUP; if (b & 4) lf |= M_SRC_ONESHOT;
            long token = 0x2000 + next_token++;
            // bits 8-9 of b: the k-th allocation made by this call is refused by the configured allocator. A registration that reports failure must leave no trace
            // (count unchanged, descriptor not closed, nothing polled, nothing leaked); one that reports success is registered
            const long kref = (b >> 8) & 3; const bool inject = kref && legal && !present && !S->tb_on;
            if (inject) { track::arm_refusal(kref); refused_fd_reg = idx; }
            int r = m_mod_src_register_fd(handle(S), fd, (m_src_flags)lf, (void *)token);
            const bool refused_alloc = inject && track::disarm_refusal();
            if (!legal) { RET_ILLEGAL("C01.2", "m_mod_src_register_fd", r); break; }
            refused_fd_reg = -1;
            if (refused_alloc) {
                cls.insert("source-registration-with-refused-allocation"); nt["C20"] = true;
                trace("fd_reg with refused allocation #" + std::to_string(kref) + " -> " + std::to_string(r));
                if (r > 0) fail("C09.4", "m_mod_src_register_fd returned " + std::to_string(r));
                if (r != 0) break; // refused: the model keeps the descriptor unregistered, the probes that follow compare the counts
            }
            if (present) { if (r != -EEXIST) fail("C09.1", "registering descriptor source " + std::to_string(fd) + " twice returned " + std::to_string(r) + ", expected -EEXIST"); if (S->fds.size() >= 2) nt["C09"] = true; cls.insert("duplicate-source-registration"); break; }
            RET_LEGAL("C09.1", "m_mod_src_register_fd", r);
            FdSrc s{idx, fd, (bool)(b & 1), (bool)(b & 2), (bool)(b & 4), token};
            S->fds[idx] = s;
            if (b & 3) { nt["C20"] = true; cls.insert((b & 2) ? "fd-dup" : "fd-autoclose"); }
            cls.insert("fd-source");
        } else {
            bool present = S->fds.count(idx);
            if (present && S->fds[idx].dup) { counters_skipped++; break; }
            int r = m_mod_src_deregister_fd(handle(S), fd);
            if (!legal) { RET_ILLEGAL("C01.2", "m_mod_src_deregister_fd", r); break; }
            if (present) {
                RET_LEGAL("C09.2", "m_mod_src_deregister_fd of a registered descriptor", r);
                release_fd_src(S->fds[idx]); // the library owns and closes it now
                if (S->fds.size() >= 2) nt["C09"] = true;
                S->fds.erase(idx);
            } else RET_ILLEGAL("C09.3", "m_mod_src_deregister_fd of a descriptor that is not registered", r);
        }
        break; }
    case prog::O_FD_WRITE: {
        int idx = (int)(((op.a % 8) + 8) % 8);
        if (harness_fd[idx][1] >= 0) { char c = 'x'; if (write(harness_fd[idx][1], &c, 1) == 1) fd_bytes[idx]++; }
        break; }
    case prog::O_FD_READ: {
        int idx = (int)(((op.a % 8) + 8) % 8);
        if (harness_fd_open[idx]) { char buf[64]; ssize_t n; while ((n = read(harness_fd[idx][0], buf, sizeof buf)) > 0) fd_bytes[idx] -= n; }
        break; }
    case prog::O_TMR_REG: case prog::O_TMR_DEREG: {
        observe_pre();
        if (!S || !handle(S)) break;
        if (skip_if_deny()) break;
        int idx = (int)(((op.a % 6) + 6) % 6);
        m_src_tmr_t its = {CLOCK_MONOTONIC, (uint64_t)tmr_period_ms[idx] * 1000000ULL};
        bool legal = mod_ok(this, S);
        bool present = S->tmrs.count(idx);
        if (present && S->tmr_maybe_retired(S->tmrs[idx])) { counters_skipped++; cls.insert("oneshot-timer-maybe-retired:op-skipped"); break; } // whether the key is still present is not decidable from outside
        if (op.code == prog::O_TMR_REG) {
            int lf = 0; int pr = PRIO_NORM;
            switch (op.b & 3) { case 1: lf |= M_SRC_PRIO_LOW; pr = PRIO_LOW; break; case 3: lf |= M_SRC_PRIO_HIGH; pr = PRIO_HIGH; break; default: break; }
            if (op.b & 4) lf |= M_SRC_ONESHOT;
            long token = 0x3000 + next_token++;
            const long kref = (op.b >> 8) & 3; const bool inject = kref && legal && !present && !S->tb_on;
            if (inject) track::arm_refusal(kref);
            int r = m_mod_src_register_tmr(handle(S), &its, (m_src_flags)lf, (void *)token);
            const bool refused_alloc = inject && track::disarm_refusal();
            if (!legal) { RET_ILLEGAL("C01.2", "m_mod_src_register_tmr", r); break; }
            if (refused_alloc) {
                cls.insert("source-registration-with-refused-allocation"); nt["C20"] = true;
                trace("tmr_reg with refused allocation #" + std::to_string(kref) + " -> " + std::to_string(r));
                if (r > 0) fail("C09.4", "m_mod_src_register_tmr returned " + std::to_string(r));
                if (r != 0) break;
            }
            if (present) { if (r != -EEXIST) fail("C09.1", "registering a timer with period " + std::to_string(tmr_period_ms[idx]) + "ms twice returned " + std::to_string(r) + ", expected -EEXIST"); if (S->tmrs.size() >= 2) nt["C09"] = true; cls.insert("duplicate-source-registration"); break; }
            RET_LEGAL("C09.1", "m_mod_src_register_tmr", r);
            S->tmrs[idx] = TmrSrc{idx, (bool)(op.b & 4), pr, token};
            cls.insert("timer-source"); nt["C20"] = true;
        } else {
            int r = m_mod_src_deregister_tmr(handle(S), &its);
            if (!legal) { RET_ILLEGAL("C01.2", "m_mod_src_deregister_tmr", r); break; }
            if (present) { RET_LEGAL("C09.2", "m_mod_src_deregister_tmr of a registered timer", r); if (S->tmrs.size() >= 2) nt["C09"] = true; S->retired_tokens.insert(S->tmrs[idx].token); S->tmrs.erase(idx); }
            else RET_ILLEGAL("C09.3", "m_mod_src_deregister_tmr of a timer that is not registered", r);
        }
        break; }
    case prog::O_SRC_REG: case prog::O_SRC_DEREG: {
        // registry profile: arbitrary keys of every kind on a module that never starts (no kernel object is created for an IDLE module)
        observe_pre();
        if (!S || !handle(S)) break;
        if (skip_if_deny()) break;
        if (P.profile != "registry") { live_src_op(op, S, top); break; }
        if (S->state != M_MOD_IDLE) { counters_skipped++; break; }
        int kind = (int)op.a; long ki = op.b;
        if (kind < M_SRC_TYPE_FD || kind > M_SRC_TYPE_THRESH) break;
        bool invalid = ki >= 90;
        ki = invalid ? 90 : ((ki % 12) + 12) % 12;
        static const int fds[12] = {3, 7, 100, 65536, 2147483647, 1 << 20, 12345, 5, 65537, 1 << 16 | 3, 4, 9};
        static const uint64_t nss[12] = {1, 2, 1000, 1000000, 1000000000ULL, 1000000001ULL, 1ULL << 32, (1ULL << 32) + 1, (1ULL << 33) + 1, 1ULL << 63, (1ULL << 63) + (1ULL << 32), 5000000000ULL};
        static const unsigned sgs[12] = {1, 2, 10, 12, 34, 64, 15, 17, 3, 35, 50, 63};
        static const std::string long_path = "/" + std::string(300, 'p');
        static const char *paths[12] = {"/tmp", "/tmp/", "/", "a", "/nonexistent/x", "/tmp/a", long_path.c_str(), "./rel", "/tmp/b", "b", "/tmp/a/", "A"};
        static const pid_t pids[12] = {1, 2, 4242, 2147483647, 65536, 65537, 99999, 12, 1 << 20, 3, 1000000, 77};
        static const int tids[12] = {0, 1, -1, 2147483647, (int)0x80000000, 65536, 7, 1 << 30, -65536, 2, 100, -2};
        static const m_src_thresh_t thrs[12] = {{1, 0}, {0, 0.5}, {1, 0.5}, {2, 0.5}, {0, 1e12}, {1000000000000000ULL, 0}, {1, 1.0}, {1, 2.0}, {2, 1.0}, {3, 0}, {0, 3.0}, {0, 0.25}};
        bool reg = op.code == prog::O_SRC_REG;
        int r = 0;
        long token = 0x4000 + next_token++;
        switch (kind) {
        case M_SRC_TYPE_FD: { int fd = invalid ? -1 : fds[ki]; r = reg ? m_mod_src_register_fd(handle(S), fd, (m_src_flags)0, (void *)token) : m_mod_src_deregister_fd(handle(S), fd); break; }
        case M_SRC_TYPE_TMR: { m_src_tmr_t t = {CLOCK_MONOTONIC, invalid ? 0 : nss[ki]}; r = reg ? m_mod_src_register_tmr(handle(S), &t, (m_src_flags)0, (void *)token) : m_mod_src_deregister_tmr(handle(S), &t); break; }
        case M_SRC_TYPE_SGN: { m_src_sgn_t t = {invalid ? 0 : sgs[ki]}; r = reg ? m_mod_src_register_sgn(handle(S), &t, (m_src_flags)0, (void *)token) : m_mod_src_deregister_sgn(handle(S), &t); break; }
        case M_SRC_TYPE_PATH: { m_src_path_t t = {invalid ? "" : paths[ki], 2}; r = reg ? m_mod_src_register_path(handle(S), &t, (m_src_flags)0, (void *)token) : m_mod_src_deregister_path(handle(S), &t); break; }
        case M_SRC_TYPE_PID: { m_src_pid_t t = {invalid ? 0 : pids[ki], 0}; r = reg ? m_mod_src_register_pid(handle(S), &t, (m_src_flags)0, (void *)token) : m_mod_src_deregister_pid(handle(S), &t); break; }
        case M_SRC_TYPE_TASK: { m_src_task_t t = {invalid ? 1 : tids[ki], invalid ? nullptr : registry_task_fn}; r = reg ? m_mod_src_register_task(handle(S), &t, (m_src_flags)0, (void *)token) : m_mod_src_deregister_task(handle(S), &t); break; }
        case M_SRC_TYPE_THRESH: { m_src_thresh_t t = invalid ? m_src_thresh_t{0, 0} : thrs[ki]; r = reg ? m_mod_src_register_thresh(handle(S), &t, (m_src_flags)0, (void *)token) : m_mod_src_deregister_thresh(handle(S), &t); break; }
        }
        auto key = std::make_pair(kind, ki);
        bool present = S->other_srcs.count(key);
        size_t of_kind = 0; for (auto &k : S->other_srcs) if (k.first == kind) of_kind++;
        std::string what = std::string(reg ? "registering" : "deregistering") + " source kind " + std::to_string(kind) + " key #" + std::to_string(ki);
        cls.insert("registry-kind-" + std::to_string(kind));
        if (!mod_ok(this, S)) { if (r >= 0) fail("C01.2", what + " on a module that cannot be operated returned " + std::to_string(r)); break; }
        if (invalid) { if (r == 0) fail("C09.4", what + " with invalid parameters returned 0"); cls.insert("invalid-source-parameters"); break; }
        if (kind == M_SRC_TYPE_TASK && !reg) { if (r >= 0) fail("C09.6", "task sources cannot be deregistered, but m_mod_src_deregister_task returned " + std::to_string(r)); break; }
        if (reg) {
            if (present) { if (r != -EEXIST) fail("C09.1", what + " which is already registered returned " + std::to_string(r) + ", expected -EEXIST"); if (of_kind >= 2) nt["C09"] = true; cls.insert("duplicate-source-registration"); }
            else { if (r != 0) fail("C09.1", what + " (new key) returned " + std::to_string(r)); else S->other_srcs.insert(key); }
        } else {
            if (present) { if (r != 0) fail("C09.2", what + " which is registered returned " + std::to_string(r)); else { S->other_srcs.erase(key); if (of_kind >= 2) nt["C09"] = true; } }
            else if (r >= 0) fail("C09.3", what + " which is not registered returned " + std::to_string(r));
        }
        break; }
    case prog::O_SRC_FIRE: live_fire(op); break;
    case prog::O_TASK_RELEASE: { long ki = ((op.a % 3) + 3) % 3; sem_post(&task_latch[ki]);
        for (auto &i : insts) { auto it = i.live_srcs.find({M_SRC_TYPE_TASK, ki}); if (it != i.live_srcs.end()) it->second.fired = true; } if (task_started[ki]) { struct timespec ts = {0, 3000000}; nanosleep(&ts, nullptr); } break; }
    case prog::O_SET_TB: {
        observe_pre();
        if (!S || !handle(S)) break;
        if (skip_if_deny()) break;
        long rate = op.a, burst = std::max(1L, op.b);
        bool legal = mod_ok(this, S);
        // b = 0 on a module that already has a bucket: a burst of 0 is asked for.  The statement gives "b + r*t" also for b = 0 (nothing is ever allowed at once); whether
        // the request is accepted is the library's choice.  Accepted: the new bound holds.  Refused: a refused call has no effect, so the old bound goes on holding.
        const bool zero_burst = op.b == 0 && rate > 0 && S->tb_on && legal;
        if (zero_burst) burst = 0;
        int r = m_mod_set_tokenbucket(handle(S), (uint32_t)rate, (uint64_t)burst);
        if (!legal) { RET_ILLEGAL("C01.2", "m_mod_set_tokenbucket", r); break; }
        if (zero_burst) {
            cls.insert(r == 0 ? "tb-zero-burst-accepted" : "tb-zero-burst-refused");
            trace("  set_tokenbucket with burst 0 returned " + std::to_string(r));
            S->tb_no_recovery = true;
            if (r == 0) { S->tb_rate = rate; S->tb_burst = 0; S->tb_calls.clear(); S->tb_refused = 0; S->tb_last_call_at = now(); }
            break;
        }
        if (r != 0) { fail("C18.4", "m_mod_set_tokenbucket(" + std::to_string(rate) + ", " + std::to_string(burst) + ") returned " + std::to_string(r) + (S->tb_on ? " while re-configuring a throttled module" : "")); break; }
        if (S->tb_on) cls.insert("tb-reconfigured");
        S->tb_on = rate > 0; S->tb_rate = rate; S->tb_burst = burst; S->tb_calls.clear(); S->tb_refused = 0; S->tb_no_recovery = false;
        S->tb_last_call_at = now(); S->tb_dispatches_since_call = 0; S->tb_running_since = now();
        cls.insert(rate > 0 ? "tb-set" : "tb-cleared");
        break; }
    default: break;
    }
}

// Blocking-loop mode (C03: "both driving modes"): m_ctx_loop() runs while a driver module, woken by an
// always-readable eventfd on every loop iteration, executes the remaining top-level ops one per invocation
// and finally requests quit, so every program terminates by construction.
void Exec::driver_step() {
    if (!ok()) return;
    while (loop_next_op < P.ops.size()) {
        const Op &op = P.ops[loop_next_op++];
        step = (int)loop_next_op - 1;
        if (op.code == prog::O_DISPATCH || op.code == prog::O_DRAIN || op.code == prog::O_SLEEP || op.code == prog::O_LOOP) { if (op.code == prog::O_SLEEP) continue; return; } // "let the loop turn"
        do_op(op, false);
        return;
    }
    if (!loop_quit_pending) { Op q; q.code = prog::O_QUIT; q.a = loop_final_code; do_op(q, false); }
}

void Exec::run_blocking_loop(const Op &op, size_t next_op) {
    observe_pre();
    if (!ctx.exists || ctx.looping) {
        int r = m_ctx_loop();
        if (r >= 0) fail(ctx.exists ? "C03.3" : "C07.2", "m_ctx_loop returned " + std::to_string(r) + (ctx.exists ? " on a context that is already looping" : " on a thread without context"));
        return;
    }
    if (ctx.finalized) return; // the driver module could not be registered
    // driver module
    insts.emplace_back();
    Inst *x = &insts.back();
    x->id = (int)insts.size() - 1; x->ctx_gen = ctx_gen; x->slot = prog::MAX_MODS; x->name = "drv"; x->hooks = 0;
    boxes.emplace_back(); boxes.back().inst = x;
    m_mod_hook_t hook = {nullptr, nullptr, c_drv_evt, nullptr};
    m_mod_t *h = nullptr;
    if (m_mod_register("drv", &h, &hook, (m_mod_flags)0, &boxes.back()) != 0 || !h) { insts.pop_back(); fail("C01.1", "could not register the driver module"); return; }
    x->h = h; x->raw = h; x->registered = true; x->state = M_MOD_IDLE; ctx.registered++;
    driver = x;
    model_enter_running(x); notify(M_PS_MOD_STARTED, x, true);
    if (m_mod_start(h) != 0) { fail("C01.1", "could not start the driver module"); return; }
    drv_fd = eventfd(1, EFD_NONBLOCK | EFD_CLOEXEC);
    if (m_mod_src_register_fd(h, drv_fd, (m_src_flags)0, nullptr) != 0) { fail("C09.1", "could not register the driver's descriptor"); return; }
    x->fds[100] = FdSrc{100, drv_fd, false, false, false, 0};
    cls.insert("blocking-loop"); nt_loop_mode = true;
    loop_next_op = next_op; loop_final_code = (int)(op.a & 0xff);
    in_loop = true; in_dispatch = true; loop_quit_pending = false; loop_started_pending = true;
    ctx.looping = true; ctx.quit = false; ctx.quit_code = 0; ctx.epoch++;
    tick_rearm(now());
    regdereg_in_pass = true;
    trace("loop begin");
    errno = 0;
    int ret = m_ctx_loop();
    in_loop = false; in_dispatch = false;
    trace("loop -> " + std::to_string(ret));
    observe_pre();
    reconcile_unobserved(true); // modules without callbacks that the loop started after the driver's last look
    ctx.looping = false;
    if (!ok()) return;
    if (loop_started_pending) { loop_started_pending = false; notify(M_PS_CTX_STARTED, nullptr, false); }
    if (!ctx.quit) fail("C03.3", "m_ctx_loop returned " + std::to_string(ret) + " although no module requested quit and the driver module is still RUNNING");
    else if (ret != ctx.quit_code) fail("C03.3", "m_ctx_loop returned " + std::to_string(ret) + ", expected the requested quit code " + std::to_string(ctx.quit_code));
    if (ok()) loop_end_obligations();
    ctx.stopping = false; ctx.quit = false; loop_quit_pending = false;
    for (auto &i : insts) if (i.registered && i.state == M_MOD_PAUSED) make_mailbox_optional(&i);
    // retire the driver
    if (ok() && driver->h) {
        int prev = driver->state;
        driver->registered = false; ctx.registered--;
        driver->fds.clear();
        model_stop(driver, true, prev);
        int r = m_mod_deregister(&driver->h);
        observe_pre();
        if (r != 0) fail("C01.1", "deregistering the driver module returned " + std::to_string(r));
        driver->h = nullptr;
        // the driver may have been the last module of a non-persistent context: an idle context is released with its last module
        if (ctx.exists && ctx.registered == 0 && !(ctx.flags & M_CTX_PERSIST)) { ctx.exists = false; cls.insert("ctx-auto-release"); }
    }
    harness_closing = true; close(drv_fd); harness_closing = false; drv_fd = -1;
    driver = nullptr;
    probe("loop");
}

// ---- live sources: signals, paths, pids, tasks, thresholds backed by real kernel objects (C03, C09-live, C20) ----
static int live_task_fn(void *p) { long k = (long)p - 0x5000; if (k >= 0 && k < 3) { while (sem_wait(&task_latch[k]) != 0) {} } return (int)(k * 3 + 1); }
static int live_signals[3] = {SIGUSR1, SIGUSR2, SIGRTMIN + 3};
pid_t g_live_kids[3]; int g_live_signals[3];

void Exec::live_setup() {
    live_signals[2] = SIGRTMIN + 3; for (int k = 0; k < 3; k++) { g_live_signals[k] = live_signals[k]; g_live_kids[k] = 0; }
    sigset_t m; sigemptyset(&m); for (int s : live_signals) sigaddset(&m, s); sigprocmask(SIG_BLOCK, &m, nullptr); // never let them hit the default action
    char tmpl[] = "/var/tmp/lmv-actor-XXXXXX"; tmpdir = mkdtemp(tmpl) ? tmpl : "";
    for (int k = 0; k < 3; k++) { if (!tmpdir.empty()) mkdir((tmpdir + "/d" + std::to_string(k)).c_str(), 0700); sem_init(&task_latch[k], 0, 0); }
}
void Exec::live_teardown() {
    for (int k = 0; k < 3; k++) { if (kids[k] > 0) { kill(kids[k], SIGKILL); waitpid(kids[k], nullptr, 0); kids[k] = 0; } for (int j = 0; j < 4; j++) sem_post(&task_latch[k]); }
    if (!tmpdir.empty()) { std::string cmd = "rm -rf '" + tmpdir + "'"; if (system(cmd.c_str())) {} tmpdir.clear(); }
    // consume signals left pending so that they cannot leak anywhere
    sigset_t m; sigemptyset(&m); for (int s : live_signals) sigaddset(&m, s);
    struct timespec zero = {0, 0}; while (sigtimedwait(&m, nullptr, &zero) > 0) {}
}
bool Exec::live_key_elsewhere(Inst *S, int kind, long ki) { for (auto &i : insts) if (&i != S && i.live_srcs.count({kind, ki})) return true; return false; }

// the library waits for running tasks when the loop stops: never let it wait for a task that is still latched
void Exec::release_all_tasks() {
    for (int k = 0; k < 3; k++) { if (task_used[k]) { sem_post(&task_latch[k]); for (auto &i : insts) { auto it = i.live_srcs.find({M_SRC_TYPE_TASK, (long)k}); if (it != i.live_srcs.end()) it->second.fired = true; } } }
}

void Exec::live_src_op(const Op &op, Inst *S, bool top) {
    int kind = (int)op.a; long ki = ((op.b % 3) + 3) % 3;
    if (kind < M_SRC_TYPE_SGN || kind > M_SRC_TYPE_THRESH) return;
    if (!mod_ok(this, S) || S->tb_on) { counters_skipped++; return; }
    bool reg = op.code == prog::O_SRC_REG;
    auto key = std::make_pair(kind, ki);
    bool present = S->live_srcs.count(key);
    // a signal number / pid / task id is watched by at most one module at a time (one kernel object delivers once)
    if (reg && !present && live_key_elsewhere(S, kind, ki)) { counters_skipped++; return; }
    if (kind == M_SRC_TYPE_TASK && reg && (present || task_used[ki])) { counters_skipped++; return; } // each task runs once per case
    // known finding KF-C04-1: a task still in flight when its module leaves RUNNING (or the loop stops) writes into the freed source.
    // Excluded by construction: a task is only registered at top level on a RUNNING module of a looping context and the harness
    // then dispatches until the library has consumed its completion, before anything else can happen (strict mode lifts this).
    const bool sync_task = kind == M_SRC_TYPE_TASK && reg && !P.strict;
    std::set<int> fds_before_task; if (sync_task) fds_before_task = open_fds();
    if (sync_task && !(top && cbstack.empty() && ctx.looping && !ctx.quit && !in_loop && S->state == M_MOD_RUNNING && ctx.running > 0)) { counters_skipped++; cls.insert("excluded_by_known_finding:KF-C04-1"); return; }
    // a one-shot source whose kernel object is (or may be) ready may already have been retired by the library when its event was read,
    // although the event has not reached the handler yet: whether the key is still "present" is then not decidable from outside
    if (present) { const LiveSrc &cur_ls = S->live_srcs[key]; if (cur_ls.oneshot && (cur_ls.fired || kind == M_SRC_TYPE_THRESH)) { counters_skipped++; cls.insert("live-oneshot-maybe-retired:op-skipped"); return; } }
    long token = 0x5000 + ki; if (kind != M_SRC_TYPE_TASK) token = 0x6000 + next_token++;
    int lf = 0; bool oneshot = kind == M_SRC_TYPE_TASK || kind == M_SRC_TYPE_THRESH;
    if (kind == M_SRC_TYPE_PID) oneshot = oneshot || true; // a process exits once; keep the model simple: registered one-shot
    if (kind == M_SRC_TYPE_PID) lf |= M_SRC_ONESHOT;
    int r = 0;
    static std::string paths[3];
    switch (kind) {
    case M_SRC_TYPE_SGN: { m_src_sgn_t t = {(unsigned)live_signals[ki]}; r = reg ? m_mod_src_register_sgn(handle(S), &t, (m_src_flags)lf, (void *)token) : m_mod_src_deregister_sgn(handle(S), &t); break; }
    case M_SRC_TYPE_PATH: { if (tmpdir.empty()) return; paths[ki] = tmpdir + "/d" + std::to_string(ki); m_src_path_t t = {paths[ki].c_str(), 0x100 /* IN_CREATE */}; r = reg ? m_mod_src_register_path(handle(S), &t, (m_src_flags)(lf | M_SRC_DUP), (void *)token) : m_mod_src_deregister_path(handle(S), &t); break; }
    case M_SRC_TYPE_PID: {
        if (reg && !present && kids[ki] <= 0) { pid_t c = fork(); if (c == 0) { prctl(PR_SET_PDEATHSIG, SIGKILL); for (int fd = 0; fd < 64; fd++) __real_close(fd); for (;;) pause(); } kids[ki] = c; g_live_kids[ki] = c; kid_dead[ki] = false; }
        if (kids[ki] <= 0) return;
        m_src_pid_t t = {kids[ki], 0}; r = reg ? m_mod_src_register_pid(handle(S), &t, (m_src_flags)lf, (void *)token) : m_mod_src_deregister_pid(handle(S), &t); break; }
    case M_SRC_TYPE_TASK: { m_src_task_t t = {(int)(100 + ki), live_task_fn}; r = reg ? m_mod_src_register_task(handle(S), &t, (m_src_flags)lf, (void *)token) : m_mod_src_deregister_task(handle(S), &t); break; }
    case M_SRC_TYPE_THRESH: { m_src_thresh_t t = {(uint64_t)(3 + ki * 4), 0}; r = reg ? m_mod_src_register_thresh(handle(S), &t, (m_src_flags)lf, (void *)token) : m_mod_src_deregister_thresh(handle(S), &t); break; }
    }
    std::string what = std::string(reg ? "registering" : "deregistering") + " live source kind " + std::to_string(kind) + " key #" + std::to_string(ki);
    cls.insert("live-kind-" + std::to_string(kind));
    if (kind == M_SRC_TYPE_TASK && !reg) { if (r >= 0) fail("C09.6", "task sources cannot be deregistered, but m_mod_src_deregister_task returned " + std::to_string(r)); return; }
    if (reg) {
        if (present) { if (r != -EEXIST) fail("C09.1", what + " which is already registered returned " + std::to_string(r) + ", expected -EEXIST"); cls.insert("duplicate-source-registration"); }
        else if (r != 0) fail("C09.1", what + " returned " + std::to_string(r));
        else {
            LiveSrc ls; ls.kind = kind; ls.key = ki; ls.token = token; ls.oneshot = oneshot; ls.prio = PRIO_NORM;
            if (kind == M_SRC_TYPE_PID && kid_dead[ki]) ls.fired = true; // the process is already gone: the source is ready as soon as it is polled
            S->live_srcs[key] = ls; nt["C20"] = true;
            if (kind == M_SRC_TYPE_TASK) { task_used[ki] = true; if (S->state == M_MOD_RUNNING) task_started[ki] = true; }
            if (sync_task) {
                // wait (without running the loop) until the task thread has written its completion: that write is its last access to the source
                sem_post(&task_latch[ki]); S->live_srcs[key].fired = true;
                int efd = -1;
                for (int fd : open_fds()) if (!fds_before_task.count(fd)) { char path[64], target[128]; snprintf(path, sizeof path, "/proc/self/fd/%d", fd); ssize_t n = readlink(path, target, sizeof target - 1); if (n > 0) { target[n] = 0; if (strstr(target, "eventfd")) efd = fd; } }
                bool done = false;
                if (efd >= 0) { struct pollfd pfd = {efd, POLLIN, 0}; done = poll(&pfd, 1, 5000) == 1; }
                if (!done) { v.inconclusive = true; cls.insert("task-completion-not-observed"); }
                cls.insert("task-run-to-completion");
            }
        }
    } else {
        if (present) { if (r != 0) fail("C09.2", what + " which is registered returned " + std::to_string(r)); else { S->retired_tokens.insert(S->live_srcs[key].token); S->live_srcs.erase(key); nt["C09"] = true; } }
        else if (r >= 0) fail("C09.3", what + " which is not registered returned " + std::to_string(r));
    }
}

// Known finding KF-C04-1 again: resuming a module starts its not yet consumed task sources a second time (the task function runs again).
// To keep "no task in flight while anything else happens" the harness lets those runs finish as well before the next op: it waits for the
// completion write on every event descriptor created by the resume call.
void Exec::wait_for_rearmed_tasks(Inst *S, const std::set<int> &fds_before) {
    int pending = 0;
    for (auto &kv : S->live_srcs) if (kv.first.first == M_SRC_TYPE_TASK) { long ki = kv.first.second; if (ki >= 0 && ki < 3) { sem_post(&task_latch[ki]); pending++; } }
    if (!pending) return;
    cls.insert("task-restarted-by-resume");
    for (int fd : open_fds()) {
        if (fds_before.count(fd)) continue;
        char path[64], target[128]; snprintf(path, sizeof path, "/proc/self/fd/%d", fd);
        ssize_t n = readlink(path, target, sizeof target - 1); if (n <= 0) continue; target[n] = 0;
        if (!strstr(target, "eventfd")) continue;
        struct pollfd pfd = {fd, POLLIN, 0};
        bool has_thresh = false; for (auto &kv : S->live_srcs) if (kv.first.first == M_SRC_TYPE_THRESH) has_thresh = true; // threshold sources use event descriptors too: those never become readable here
        if (poll(&pfd, 1, has_thresh ? 200 : 5000) != 1 && !has_thresh) { v.inconclusive = true; cls.insert("task-completion-not-observed"); }
    }
}

// Module names: "m0".."m3", or (programs with `names 1`) names steered with the guarded map hook so that slots 0/1 and slots 2/3 share a home
// slot in a map of the default size - the context keeps its modules in such a map, and what it does must not depend on how names hash.
extern "C" int m_map_verif_slot(const m_map_t *m, const char *key, size_t *home, ssize_t *slot, size_t *table_size);
void Exec::choose_module_names() {
    for (int k = 0; k < prog::MAX_MODS; k++) modname[k] = "m" + std::to_string(k);
    if (!P.names) return;
    m_map_t *probe_map = m_map_new((m_map_flags)0, nullptr);
    if (!probe_map) return;
    auto home_of = [&](const std::string &n) { size_t h = 0; m_map_verif_slot(probe_map, n.c_str(), &h, nullptr, nullptr); return h; };
    for (int pair = 0; pair < 2; pair++) {
        int a = pair * 2, b = pair * 2 + 1;
        size_t want = home_of(modname[a]);
        for (int k = 0; k < 5000; k++) { std::string cand = "m" + std::to_string(b) + "x" + std::to_string(k); if (home_of(cand) == want) { modname[b] = cand; break; } }
    }
    m_map_free(&probe_map);
    cls.insert("colliding-module-names");
}

void Exec::live_fire(const Op &op) {
    int kind = (int)op.a; long ki = ((op.b % 3) + 3) % 3;
    Inst *owner = nullptr; for (auto &i : insts) if (i.live_srcs.count({kind, ki})) owner = &i;
    switch (kind) {
    case M_SRC_TYPE_SGN: if (!owner || owner->state != M_MOD_RUNNING) return; kill(getpid(), live_signals[ki]); break; // only while somebody reads it: a pending signal would be seen by a later registration
    case M_SRC_TYPE_PATH: { if (tmpdir.empty() || !owner || owner->state != M_MOD_RUNNING) return; std::string f = tmpdir + "/d" + std::to_string(ki) + "/f" + std::to_string(next_token++); int fd = open(f.c_str(), O_CREAT | O_WRONLY, 0600); if (fd >= 0) { harness_closing = true; close(fd); harness_closing = false; } break; }
    case M_SRC_TYPE_PID: if (kids[ki] <= 0 || kid_dead[ki]) return; kill(kids[ki], SIGKILL); kid_dead[ki] = true; { struct timespec ts = {0, 2000000}; nanosleep(&ts, nullptr); } break;
    default: return;
    }
    if (owner && ((owner->state == M_MOD_RUNNING && ctx.looping) || kind == M_SRC_TYPE_PID)) { owner->live_srcs[{kind, ki}].fired = true; cls.insert("live-source-fired"); } // a process stays dead: its source is ready whenever it gets polled
}

void Exec::close_harness_fds() {
    harness_closing = true;
    // a descriptor registered without auto-close (or never registered) must still be open and still be the same pipe (C20.2)
    for (int i = 0; i < 8 && ok(); i++) if (harness_fd_open[i] && harness_fd[i][0] >= 0 && !autoclose_pending[i]) {
        struct stat st;
        if (fstat(harness_fd[i][0], &st) != 0 || st.st_ino != harness_ino[i]) fail("C20.2", "user descriptor " + std::to_string(harness_fd[i][0]) + " that was never given to the library with auto-close is no longer the open pipe it was");
    }
    for (int i = 0; i < 8; i++) {
        if (harness_fd_open[i] && harness_fd[i][0] >= 0) close(harness_fd[i][0]);
        if (harness_fd[i][1] >= 0) close(harness_fd[i][1]);
        harness_fd[i][0] = harness_fd[i][1] = -1; harness_fd_open[i] = false;
    }
    harness_closing = false;
}

void Exec::epilogue() {
    step = 100000;
    trace("epilogue");
    // 1. stop a running loop the documented way
    if (ctx.exists && ctx.looping && ok()) {
        Op q; q.code = prog::O_QUIT; q.a = 0; do_op(q, true);
        Op d; d.code = prog::O_DISPATCH; d.a = 1; do_op(d, true);
    }
    while (!retained_evts.empty() && ok()) drop_retained(0);
    // 2. deregister what is left, module by module or through the context (program's last op decides; default modules first)
    if (ok()) for (int s = 0; s < P.nmods && ok(); s++) {
        Inst *x = cur[s];
        if (x && x->registered && x->h && ctx.exists) { Op d; d.code = prog::O_DEREG; d.s = s; do_op(d, true); }
    }
    if (ok() && ctx.exists) { Op d; d.code = prog::O_CTX_DEREG; do_op(d, true); }
    // 3. give back every reference the harness still holds
    if (ok()) for (auto &i : insts) {
        check_zombie_answers(&i);
        if (i.h) { m_mem_unref(i.h); i.h = nullptr; }
        while (i.extra > 0) { i.extra--; m_mem_unref(i.raw); }
    }
    if (!ok()) return;
    if (!track::st().error.empty()) { fail("C04.2", track::st().error); return; }
    // 4. payload accounting (C02.5 / C02.6)
    for (auto &kv : payloads) {
        Payload &p = kv.second;
        if (!p.autofree) continue;
        if (!p.ever_sent) { payload_by_ptr.erase(p.ptr); track::st().on_free = nullptr; track::t_free(p.ptr); track::st().on_free = payload_free_hook; continue; }
        if (p.frees != 1) { fail("C02.5", "auto-free payload " + std::to_string(p.id) + " was released " + std::to_string(p.frees) + " times by the time everything was torn down (expected exactly once)"); return; }
    }
    // 5. nothing the library allocated may be left (C04.4)
    if (track::live_count() != 0) {
        std::ostringstream o; o << track::live_count() << " allocations made through the memhook are still outstanding after the context and all references are gone (sizes:";
        int n = 0; for (auto &kv : track::st().live) { if (n++ < 8) o << " " << kv.second.size; }
        o << ")";
        fail("C04.4", o.str()); return;
    }
    if (g_lib_regex_live != 0) { fail("C04.4", std::to_string(g_lib_regex_live) + " regular expressions compiled by the library were never released (regcomp without regfree) although the context and all references are gone"); return; }
    // 6. descriptors (C20.3)
    live_teardown();
    close_harness_fds();
    std::set<int> now_fds = open_fds();
    for (int fd : now_fds) if (!fds_before.count(fd)) {
        char path[64], target[256]; snprintf(path, sizeof path, "/proc/self/fd/%d", fd);
        ssize_t n = readlink(path, target, sizeof target - 1); target[n > 0 ? n : 0] = 0;
        fail("C20.3", "descriptor " + std::to_string(fd) + " (" + target + ") opened during the run is still open after the context and all references are gone"); return;
    }
    for (int fd : fds_before) if (!now_fds.count(fd)) { fail("C20.1", "descriptor " + std::to_string(fd) + " that was open before the run was closed"); return; }
}

rt::Verdict Exec::run() {
    g_exec = this;
    signal(SIGPIPE, SIG_IGN); // the harness may write to a pipe whose read end an auto-close source already closed
    track::install();
    track::st().error.clear();
    choose_module_names();
    for (int i = 0; i < 8; i++) { harness_fd[i][0] = harness_fd[i][1] = -1; harness_fd_open[i] = false; fd_bytes[i] = 0; autoclose_pending[i] = autoclose_closed[i] = false; harness_ino[i] = 0; }
    live_setup();
    fds_before = open_fds();
    track::st().on_free = payload_free_hook;
    t_start = now();
    for (size_t i = 0; i < P.ops.size() && ok(); i++) {
        step = (int)i; do_op(P.ops[i], true);
        if (loop_next_op > i + 1) { i = loop_next_op - 1; loop_next_op = 0; } // the driver module executed these inside the blocking loop
    }
    if (ok()) epilogue();
    live_teardown(); // also after a failure: no helper process may outlive the case
    // classification
    nt["C01"] = nt_c01_accept && nt_c01_reject && P.nmods >= 2;
    nt["C02"] = nt_c02_shape && nt_c02_delivery;
    v.nontrivial = nt[prop];
    for (auto &s : cls) v.classes.push_back(s);
    if (counters_skipped) v.classes.push_back("ops-skipped-by-exclusion");
    (void)excluded_kf;
    return v;
}

rt::Verdict run_actor_program(const Prog &p, const std::string &prop) {
    Exec e(p);
    e.prop = prop;
    return e.run();
}
