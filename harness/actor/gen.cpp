// Engine B — rapidcheck program generator (profiles per property) and harness main.
#include "../common/rcmain.hpp"
#include "../common/gens.hpp"
#include "prog.hpp"

using prog::Op; using prog::Prog; using prog::Script;
namespace P = prog;

rt::Verdict run_actor_program(const Prog &p, const std::string &prop);

namespace prog { void showValue(const Prog &p, std::ostream &os) { os << to_text(p); } }

struct Weights { std::map<int, double> top, script; };

static Weights profile_weights(const std::string &prop) {
    Weights w;
    auto &t = w.top; auto &s = w.script;
    // base mix
    t = {{P::O_CTX_REG, 0.5}, {P::O_CTX_DEREG, 0.7}, {P::O_CTX_FINALIZE, 0.2}, {P::O_QUIT, 3}, {P::O_DISPATCH, 18}, {P::O_DRAIN, 5}, {P::O_CTX_PROBE, 1}, {P::O_LOOP, 2.5},
         {P::O_REG, 4}, {P::O_DEREG, 3}, {P::O_START, 6}, {P::O_PAUSE, 4}, {P::O_RESUME, 4}, {P::O_STOP, 3}, {P::O_PILL, 1.5},
         {P::O_SUB, 8}, {P::O_UNSUB, 2.5}, {P::O_TELL, 9}, {P::O_PUB, 9}, {P::O_BCAST, 3}, {P::O_FLOOD, 0.05},
         {P::O_BECOME, 2}, {P::O_UNBECOME, 2}, {P::O_UNSTASH, 2}, {P::O_BATCH_SIZE, 1.5}, {P::O_BATCH_TIMEOUT, 0.2},
         {P::O_DROP_EVT, 0.7}, {P::O_DROP_MODREF, 0.7}, {P::O_LOOKUP, 0.5},
         {P::O_FD_REG, 1.5}, {P::O_FD_DEREG, 0.7}, {P::O_FD_WRITE, 2}, {P::O_FD_READ, 0.3}, {P::O_TMR_REG, 0.3}, {P::O_TMR_DEREG, 0.15},
         {P::O_SRC_REG, 0.8}, {P::O_SRC_DEREG, 0.4}, {P::O_SRC_FIRE, 0.8}, {P::O_TASK_RELEASE, 0.4}};
    s = {{P::O_QUIT, 1}, {P::O_CTX_PROBE, 0.7}, {P::O_REG, 0.7}, {P::O_DEREG, 1.5}, {P::O_START, 2}, {P::O_PAUSE, 1.5}, {P::O_RESUME, 1}, {P::O_STOP, 1.5}, {P::O_PILL, 0.5},
         {P::O_SUB, 3}, {P::O_UNSUB, 1.5}, {P::O_TELL, 4}, {P::O_PUB, 4}, {P::O_BCAST, 1}, {P::O_BECOME, 1.5}, {P::O_UNBECOME, 1.5}, {P::O_STASH, 3}, {P::O_UNSTASH, 1.5},
         {P::O_BATCH_SIZE, 0.7}, {P::O_REF_EVT, 0.8}, {P::O_DROP_EVT, 0.4}, {P::O_FD_REG, 0.5}, {P::O_FD_DEREG, 0.3}, {P::O_FD_WRITE, 0.5}, {P::O_ERRNO, 0.5},
         {P::O_CTX_DEREG, 0.2}, {P::O_CTX_FINALIZE, 0.05}, {P::O_SET_TICK, 0.05}, {P::O_CTX_REG, 0.15}, {P::O_LOOP, 0.15}};
    auto scale = [&](std::map<int, double> &m, std::initializer_list<int> codes, double f) { for (int c : codes) if (m.count(c)) m[c] *= f; else m[c] = f; };
    if (prop == "C03" || prop == "C08" || prop == "C02") t[P::O_LOOP] = 3;
    if (prop == "C01") { scale(t, {P::O_START, P::O_PAUSE, P::O_RESUME, P::O_STOP, P::O_DEREG, P::O_REG}, 2.0); scale(s, {P::O_START, P::O_PAUSE, P::O_RESUME, P::O_STOP, P::O_DEREG}, 2.0); scale(t, {P::O_FD_REG, P::O_FD_WRITE, P::O_TMR_REG, P::O_FLOOD, P::O_BATCH_TIMEOUT}, 0.3); }
    else if (prop == "C02") { scale(t, {P::O_SUB, P::O_TELL, P::O_PUB, P::O_BCAST}, 1.6); t[P::O_FLOOD] = 0.12; }
    else if (prop == "C08") { scale(t, {P::O_TELL, P::O_PUB, P::O_BCAST, P::O_PILL, P::O_BATCH_SIZE, P::O_QUIT}, 1.8); scale(s, {P::O_STASH, P::O_UNSTASH}, 0.2); }
    else if (prop == "C13") { scale(t, {P::O_BATCH_SIZE}, 4); t[P::O_BATCH_TIMEOUT] = 0.6; scale(t, {P::O_SUB, P::O_PUB, P::O_FD_REG, P::O_FD_WRITE, P::O_DRAIN}, 1.6); }
    else if (prop == "C16") { scale(s, {P::O_STASH}, 3); scale(t, {P::O_UNSTASH}, 5); scale(s, {P::O_UNSTASH}, 2); scale(t, {P::O_TELL, P::O_PUB}, 1.5); }
    else if (prop == "C17") { scale(t, {P::O_BECOME, P::O_UNBECOME}, 4); scale(s, {P::O_BECOME, P::O_UNBECOME}, 3); scale(t, {P::O_TELL}, 1.5); }
    else if (prop == "C19") { scale(t, {P::O_SUB, P::O_START, P::O_PAUSE, P::O_RESUME, P::O_STOP, P::O_QUIT}, 1.6); t[P::O_SET_TICK] = 0.15; }
    else if (prop == "C07") { t[P::O_CTX_REG] = 3; t[P::O_CTX_DEREG] = 3; t[P::O_CTX_FINALIZE] = 1; t[P::O_CTX_PROBE] = 3; scale(t, {P::O_REG, P::O_DEREG}, 1.8); s[P::O_CTX_DEREG] = 0.8; s[P::O_CTX_REG] = 0.8; }
    else if (prop == "C15") { scale(t, {P::O_REG, P::O_LOOKUP, P::O_CTX_PROBE}, 2); scale(s, {P::O_QUIT, P::O_CTX_PROBE, P::O_CTX_DEREG}, 3); s[P::O_SET_TICK] = 0.5; s[P::O_CTX_FINALIZE] = 0.3; s[P::O_CTX_REG] = 0.8; s[P::O_LOOP] = 0.8; }
    else if (prop == "C03" || prop == "C20") { scale(t, {P::O_FD_REG, P::O_FD_DEREG, P::O_FD_WRITE, P::O_TMR_REG, P::O_TMR_DEREG, P::O_SRC_REG, P::O_SRC_DEREG, P::O_SRC_FIRE, P::O_TASK_RELEASE}, 3); scale(s, {P::O_ERRNO}, 4); }
    else if (prop == "C09") { scale(t, {P::O_FD_REG, P::O_FD_DEREG, P::O_TMR_REG, P::O_TMR_DEREG, P::O_SUB, P::O_UNSUB}, 3); }
    else if (prop == "C18") {
        t = {{P::O_SET_TB, 4}, {P::O_TELL, 26}, {P::O_PUB, 6}, {P::O_BCAST, 2}, {P::O_SUB, 4}, {P::O_UNSUB, 1}, {P::O_BECOME, 2}, {P::O_UNBECOME, 2}, {P::O_BATCH_SIZE, 1}, {P::O_BATCH_TIMEOUT, 1.5}, {P::O_DRAIN, 1},
             {P::O_SLEEP, 7}, {P::O_DISPATCH, 12}, {P::O_DRAIN, 1}, {P::O_STOP, 0.5}, {P::O_START, 1}, {P::O_PAUSE, 2}, {P::O_RESUME, 3}, {P::O_TMR_REG, 1}, {P::O_TMR_DEREG, 0.3}, {P::O_QUIT, 0.3}, {P::O_REG, 0.5}, {P::O_DEREG, 0.3}};
        s = {{P::O_TELL, 4}, {P::O_PUB, 2}, {P::O_SUB, 1}, {P::O_BECOME, 1}, {P::O_UNBECOME, 1}, {P::O_STASH, 1}, {P::O_SET_TB, 0.5}};
    }
    if (prop == "C09reg") {
        t = {{P::O_SRC_REG, 40}, {P::O_SRC_DEREG, 25}, {P::O_SUB, 6}, {P::O_UNSUB, 4}, {P::O_REG, 2}, {P::O_DEREG, 1}, {P::O_CTX_PROBE, 0.5}, {P::O_BATCH_TIMEOUT, 1}, {P::O_SET_TB, 1}};
        s = {};
    }
    else if (prop == "C04") { scale(t, {P::O_DROP_EVT, P::O_DROP_MODREF, P::O_DEREG}, 2); scale(s, {P::O_REF_EVT, P::O_DEREG, P::O_STOP, P::O_UNSUB}, 2.5); t[P::O_FLOOD] = 0.15; }
    return w;
}

static rc::Gen<Op> gen_op_from(const std::map<int, double> &w, int nmods, const std::string &prop) {
    using namespace rc;
    std::vector<std::pair<size_t, Gen<Op>>> alts;
    auto slot = [nmods]() { return gens::range<int>(0, nmods); };
    for (auto &kv : w) {
        int code = kv.first; size_t weight = (size_t)(kv.second * 100);
        if (!weight) continue;
        Gen<long> ga = gen::just(0L), gb = gen::just(0L);
        switch (code) {
        case P::O_CTX_REG: ga = gens::range<long>(0, 8); gb = prop == "C07" ? gens::weighted_values<long>({{2, 0}, {1, 1}}) : gens::weighted_values<long>({{6, 0}, {1, 1}}); break;
        case P::O_LOOP: ga = gens::weighted_values<long>({{2, 0}, {2, 9}, {1, 200}}); break;
        case P::O_QUIT: ga = gens::weighted_values<long>({{2, 0}, {2, 7}, {1, 42}, {1, 255}, {1, 4}, {1, 11}}); break;
        case P::O_DISPATCH: ga = gens::weighted_values<long>({{5, 1}, {3, 2}, {2, 4}, {1, 12}}); if (prop == "C03") gb = gens::weighted_values<long>({{14, 0}, {3, 1}, {1, 2}, {1, 3}, {1, 4}}); else if (prop == "C04" || prop == "C02" || prop == "C08") gb = gens::weighted_values<long>({{30, 0}, {1, 1}, {1, 3}, {1, 5}}); else if (prop == "C07") gb = gens::weighted_values<long>({{10, 0}, {2, 5}}); else gb = gens::weighted_values<long>({{40, 0}, {1, 5}}); break;
        case P::O_SET_TICK: ga = gens::weighted_values<long>({{1, 0}, {2, 2}, {2, 5}, {1, 10}}); break;
        case P::O_REG: if (prop == "C04") { ga = gens::weighted_values<long>({{8, 0}, {2, 1}, {1, 2}, {1, 4}, {5, 64}, {1, 8}, {1, 16}, {1, 32}, {2, 68}, {1, 65}}); gb = gens::weighted_values<long>({{1, 0}, {1, 1}}); break; }
            ga = prop == "C15" ? gens::weighted_values<long>({{3, 0}, {3, 1}, {2, 2}, {1, 3}, {3, 8}, {3, 16}, {3, 32}, {1, 4}, {1, 64}, {1, 9}, {1, 56}}) : gens::weighted_values<long>({{12, 0}, {2, 1}, {1, 2}, {1, 4}, {1, 64}, {1, 8}, {1, 16}, {1, 32}, {1, 68}}); gb = gens::weighted_values<long>({{2, 0}, {1, 1}}); break;
        case P::O_SUB: ga = prop == "C19" ? gens::weighted_values<long>({{1, 0}, {1, 4}, {3, 8}, {3, 9}, {2, 10}, {2, 11}, {1, 12}, {2, 13}, {2, 14}}) : gens::weighted_values<long>({{4, 0}, {3, 1}, {2, 2}, {2, 3}, {3, 4}, {2, 5}, {2, 6}, {1, 7}, {1, 8}, {1, 9}, {1, 10}, {1, 11}, {1, 13}, {1, 14}, {1, 15}});
            gb = prop == "C13" ? gens::weighted_values<long>({{3, 0}, {4, 1}, {2, 2}, {4, 3}, {1, 4}}) : gens::weighted_values<long>({{8, 0}, {2, 1}, {1, 2}, {2, 3}, {2, 4}, {1, 8}, {1, 16}, {1, 12}, {1, 5}}); break;
        case P::O_UNSUB: ga = gens::range<long>(0, 15); break;
        case P::O_TELL: case P::O_BCAST: ga = gens::weighted_values<long>({{3, 0}, {1, 1}}); break;
        case P::O_PUB: ga = gens::weighted_values<long>({{4, 0}, {3, 1}, {3, 2}, {2, 3}, {1, 7}, {1, 8}, {1, 16}}); gb = gens::weighted_values<long>({{3, 0}, {1, 1}}); break;
        case P::O_FLOOD: ga = gens::weighted_values<long>({{1, 8191}, {1, 8192}, {1, 8193}, {1, 9000}}); break;
        case P::O_BECOME: ga = gens::weighted_values<long>({{8, 0}, {8, 1}, {8, 2}, {8, 3}, {1, 100}, {1, 102}}); break;
        case P::O_STASH: case P::O_REF_EVT: ga = gens::range<long>(0, 4); break;
        case P::O_UNSTASH: ga = gens::weighted_values<long>({{3, 1}, {3, 2}, {2, 3}, {1, 5}, {2, 0}}); break;
        case P::O_BATCH_SIZE: ga = gens::weighted_values<long>({{2, 0}, {1, 1}, {4, 2}, {3, 3}, {2, 5}, {1, -1}}); break;
        case P::O_BATCH_TIMEOUT: ga = gens::weighted_values<long>({{2, 0}, {2, 2}, {1, 5}}); break;
        case P::O_FD_REG: ga = gens::range<long>(0, 8); gb = (prop == "C20" || prop == "C04") ? gens::weighted_values<long>({{3, 0}, {3, 1}, {2, 2}, {2, 4}, {1, 5}, {1, 6}}) : gens::weighted_values<long>({{6, 0}, {1, 1}, {2, 4}});
            gb = gen::map(gen::pair(gb, gens::weighted_values<long>({{24, 0}, {1, 1}, {1, 2}, {2, 3}, {2, 4}})), [](std::pair<long, long> p) { return p.first + 256 * p.second; }); break;
        case P::O_FD_DEREG: case P::O_FD_WRITE: case P::O_FD_READ: ga = gens::range<long>(0, 8); break;
        case P::O_TMR_REG: ga = gens::range<long>(0, 6); gb = gen::map(gen::pair(gens::weighted_values<long>({{4, 0}, {1, 1}, {1, 3}, {2, 4}}), gens::weighted_values<long>({{24, 0}, {1, 1}, {1, 2}, {2, 3}})), [](std::pair<long, long> p) { return p.first + 256 * p.second; }); break;
        case P::O_TMR_DEREG: ga = gens::range<long>(0, 6); break;
        case P::O_ERRNO: ga = gens::weighted_values<long>({{1, 4}, {1, 11}, {2, 2}, {2, 9}, {1, 32}, {1, 255}, {1, 22}}); break;
        case P::O_SRC_REG: case P::O_SRC_DEREG: if (prop != "C09reg") { ga = gens::range<long>(3, 8); gb = gens::range<long>(0, 3); break; } ga = gens::range<long>(1, 8); gb = gens::weighted_values<long>({{5, 0}, {5, 1}, {4, 2}, {3, 3}, {2, 4}, {2, 5}, {4, 6}, {4, 7}, {3, 8}, {2, 9}, {2, 10}, {2, 11}, {2, 99}}); break;
        case P::O_SRC_FIRE: ga = gens::weighted_values<long>({{1, 3}, {1, 4}, {1, 5}}); gb = gens::range<long>(0, 3); break;
        case P::O_TASK_RELEASE: ga = gens::range<long>(0, 3); break;
        case P::O_SET_TB: ga = gens::weighted_values<long>({{1, 0}, {2, 50}, {3, 100}, {3, 200}, {2, 500}, {2, 1000}, {1, 333}}); gb = gens::weighted_values<long>({{3, 1}, {3, 2}, {3, 3}, {2, 4}, {2, 5}, {1, 6}, {1, 8}, {2, 0}}); break;
        case P::O_SLEEP: ga = gens::weighted_values<long>({{2, 1}, {2, 3}, {1, 8}, {1, 25}}); break;
        default: break;
        }
        alts.push_back({weight, gen::map(gen::tuple(slot(), slot(), ga, gb), [code](std::tuple<int, int, long, long> t) {
            Op o; o.code = code; o.s = std::get<0>(t); o.t = std::get<1>(t); o.a = std::get<2>(t); o.b = std::get<3>(t); return o; })});
    }
    return gens::weighted<Op>(alts);
}


// ---- phrases: short op sequences that make the interesting shapes frequent (still shrinkable op by op) ----
static Op mkop(int code, int s = 0, int t = 0, long a = 0, long b = 0) { Op o; o.code = code; o.s = s; o.t = t; o.a = a; o.b = b; return o; }

static rc::Gen<std::vector<Op>> gen_phrase(const Weights &w, int nmods, const std::string &prop) {
    using namespace rc;
    auto slot = gens::range<int>(0, nmods);
    auto single = gen::map(gen_op_from(w.top, nmods, prop), [](Op o) { return std::vector<Op>{o}; });
    auto deliver = gen::map(gen::tuple(slot, slot, gens::range<long>(1, 4), gens::weighted_values<long>({{4, 0}, {1, 1}})), [](std::tuple<int, int, long, long> t) {
        return std::vector<Op>{mkop(P::O_TELL, std::get<0>(t), std::get<1>(t), std::get<3>(t)), mkop(P::O_DISPATCH, 0, 0, std::get<2>(t))}; });
    auto pubdeliver = gen::map(gen::tuple(slot, slot, gens::weighted_values<long>({{3, 0}, {2, 1}, {2, 2}, {1, 3}}), gens::weighted_values<long>({{3, 0}, {2, 4}, {1, 6}, {1, 5}}), gens::weighted_values<long>({{5, 0}, {2, 1}, {2, 3}, {1, 4}}), gens::range<long>(1, 4)),
        [](std::tuple<int, int, long, long, long, long> t) {
            long pubtopic = std::get<2>(t); long subtopic = std::get<3>(t) == 0 ? pubtopic : std::get<3>(t);
            return std::vector<Op>{mkop(P::O_SUB, std::get<1>(t), 0, subtopic, std::get<4>(t)), mkop(P::O_PUB, std::get<0>(t), 0, pubtopic, 0), mkop(P::O_DISPATCH, 0, 0, std::get<5>(t))}; });
    auto burst = gen::map(gen::tuple(slot, slot, gens::range<long>(2, 13), gens::range<long>(0, 5)), [](std::tuple<int, int, long, long> t) {
        std::vector<Op> v; for (long i = 0; i < std::get<2>(t); i++) v.push_back(mkop(P::O_TELL, std::get<0>(t), std::get<1>(t), 0));
        if (std::get<3>(t)) v.push_back(mkop(P::O_DISPATCH, 0, 0, std::get<3>(t)));
        return v; });
    auto loopcycle = gen::map(gen::tuple(gens::weighted_values<long>({{2, 0}, {2, 7}, {1, 255}}), gens::range<long>(1, 3)), [](std::tuple<long, long> t) {
        return std::vector<Op>{mkop(P::O_QUIT, 0, 0, std::get<0>(t)), mkop(P::O_DISPATCH, 0, 0, 1), mkop(P::O_DISPATCH, 0, 0, std::get<1>(t))}; });
    auto become_cycle = gen::map(gen::tuple(slot, slot, gens::range<long>(0, 4), gens::range<long>(0, 5)), [](std::tuple<int, int, long, long> t) {
        int s = std::get<0>(t), f = std::get<1>(t);
        std::vector<Op> v{mkop(P::O_BECOME, s, 0, std::get<2>(t)), mkop(P::O_TELL, f, s), mkop(P::O_DISPATCH, 0, 0, 1)};
        if (std::get<3>(t) == 0) v.push_back(mkop(P::O_UNBECOME, s));
        else if (std::get<3>(t) == 1) { v.push_back(mkop(P::O_STOP, s)); v.push_back(mkop(P::O_START, s)); }
        else if (std::get<3>(t) == 3) { v.push_back(mkop(P::O_PILL, f, s)); v.push_back(mkop(P::O_DISPATCH, 0, 0, 2)); v.push_back(mkop(P::O_START, s)); } // every way of stopping resets the stack
        else if (std::get<3>(t) == 4) { v.push_back(mkop(P::O_PAUSE, s)); v.push_back(mkop(P::O_STOP, s)); v.push_back(mkop(P::O_START, s)); }
        else v.push_back(mkop(P::O_BECOME, s, 0, std::get<2>(t) + 1));
        v.push_back(mkop(P::O_TELL, f, s)); v.push_back(mkop(P::O_DISPATCH, 0, 0, 1));
        return v; });
    auto stash_cycle = gen::map(gen::tuple(slot, slot, gens::range<long>(1, 5), gens::weighted_values<long>({{3, 1}, {3, 2}, {2, 3}, {1, 4}, {1, 6}, {2, 0}})), [](std::tuple<int, int, long, long> t) {
        std::vector<Op> v; for (long i = 0; i < std::get<2>(t); i++) v.push_back(mkop(P::O_TELL, std::get<1>(t), std::get<0>(t)));
        v.push_back(mkop(P::O_DISPATCH, 0, 0, std::get<2>(t)));
        v.push_back(mkop(P::O_UNSTASH, std::get<0>(t), 0, std::get<3>(t)));
        return v; });
    auto batch = gen::map(gen::tuple(slot, slot, gens::weighted_values<long>({{1, 0}, {1, 1}, {4, 2}, {4, 3}, {2, 5}}), gens::range<long>(1, 8), gens::weighted_values<long>({{2, 0}, {1, 1}})), [](std::tuple<int, int, long, long, long> t) {
        std::vector<Op> v{mkop(P::O_BATCH_SIZE, std::get<0>(t), 0, std::get<2>(t))};
        for (long i = 0; i < std::get<3>(t); i++) v.push_back(mkop(P::O_TELL, std::get<1>(t), std::get<0>(t)));
        v.push_back(std::get<4>(t) ? mkop(P::O_DRAIN) : mkop(P::O_DISPATCH, 0, 0, std::get<3>(t)));
        return v; });
    auto tb = gen::map(gen::tuple(slot, slot, gens::weighted_values<long>({{2, 50}, {3, 100}, {3, 200}, {2, 500}, {1, 1000}, {1, 65536}, {1, 131072}, {1, 1000000}}), gens::range<long>(1, 7), gens::range<long>(2, 14), gens::weighted_values<long>({{1, 0}, {2, 3}, {2, 12}, {2, 30}, {1, 80}}), gens::range<long>(1, 5)),
        [](std::tuple<int, int, long, long, long, long, long> t) {
            int s = std::get<0>(t), r = std::get<1>(t);
            std::vector<Op> v{mkop(P::O_SET_TB, s, 0, std::get<2>(t), std::get<3>(t))};
            const long variant = (std::get<2>(t) / 50 + std::get<3>(t) + std::get<4>(t)) % 6, topic = std::get<4>(t) % 4;
            if (variant <= 2) v.insert(v.begin(), mkop(P::O_SUB, s, 0, topic, 0)); // subscribed before the bucket exists
            const long nburst = std::get<4>(t);
            if (std::get<2>(t) >= 60000) v.push_back(mkop(P::O_BECOME, s, 0, 1, 300)); // very fast buckets need a long back-to-back series to be exceeded at all
            for (long i = 0; i < nburst; i++) { v.push_back(mkop(P::O_TELL, s, r)); if (std::get<2>(t) < 60000 && std::get<5>(t) % 3 == 0 && i % 2 == 1) { v.push_back(mkop(P::O_PAUSE, s)); v.push_back(mkop(P::O_RESUME, s)); } }
            // other classes of token-consuming calls, issued when the burst has (probably) emptied the bucket: refused calls must have no effect
            switch (variant) {
            case 0: v.push_back(mkop(P::O_UNSUB, s, 0, topic)); v.push_back(mkop(P::O_PUB, r, 0, topic, 0)); break;
            case 1: v.push_back(mkop(P::O_UNSUB, s, 0, topic)); v.push_back(mkop(P::O_SUB, s, 0, (topic + 1) % 4, 0)); break;
            case 2: v.push_back(mkop(P::O_SUB, s, 0, topic, 3)); v.push_back(mkop(P::O_BECOME, s, 0, 1)); break;
            case 3: v.push_back(mkop(P::O_BECOME, s, 0, 2)); v.push_back(mkop(P::O_UNBECOME, s)); v.push_back(mkop(P::O_BATCH_SIZE, s, 0, 2)); break;
            case 4: v.push_back(mkop(P::O_SUB, s, 0, topic, 0)); v.push_back(mkop(P::O_PAUSE, s)); v.push_back(mkop(P::O_RESUME, s)); break;
            default: v.push_back(mkop(P::O_BATCH_TIMEOUT, s, 0, 2 + topic)); v.push_back(mkop(P::O_SET_TB, s, 0, 0, 1)); v.push_back(mkop(P::O_TELL, r, s)); v.push_back(mkop(P::O_TELL, r, s)); v.push_back(mkop(P::O_SLEEP, 0, 0, 12)); v.push_back(mkop(P::O_DRAIN)); break;
            }
            v.push_back(mkop(P::O_SLEEP, 0, 0, std::get<5>(t))); v.push_back(mkop(P::O_DISPATCH, 0, 0, std::get<6>(t)));
            for (long i = 0; i < std::get<4>(t) / 2 + 1; i++) v.push_back(mkop(P::O_TELL, s, r));
            // a burst of 0 asked for on the existing bucket, then a series of calls: whatever the request answered, some bound (old or new) must go on holding
            if (std::get<6>(t) == 4 && std::get<2>(t) < 60000) { v.push_back(mkop(P::O_SET_TB, s, 0, std::get<2>(t), 0)); for (long i = 0; i < 3 * std::get<3>(t) + 8; i++) v.push_back(mkop(P::O_TELL, s, r)); }
            return v; });
    auto fdcycle = gen::map(gen::tuple(slot, gens::range<long>(0, 8), gens::weighted_values<long>({{4, 0}, {2, 1}, {1, 2}, {2, 4}, {1, 5}}), gens::range<long>(1, 4)), [](std::tuple<int, long, long, long> t) {
        return std::vector<Op>{mkop(P::O_FD_REG, std::get<0>(t), 0, std::get<1>(t), std::get<2>(t)), mkop(P::O_FD_WRITE, 0, 0, std::get<1>(t)), mkop(P::O_DISPATCH, 0, 0, std::get<3>(t))}; });
    auto regburst = gen::map(gen::tuple(slot, gens::range<long>(1, 8), gens::vec<long>(3, 9, gens::range<long>(0, 12)), gens::vec<int>(3, 9, gens::weighted_values<int>({{3, 0}, {2, 1}}))), [](std::tuple<int, long, std::vector<long>, std::vector<int>> t) {
        std::vector<Op> v; auto &keys = std::get<2>(t); auto &dirs = std::get<3>(t);
        for (size_t i = 0; i < keys.size(); i++) v.push_back(mkop(dirs[i % dirs.size()] ? P::O_SRC_DEREG : P::O_SRC_REG, std::get<0>(t), 0, std::get<1>(t), keys[i]));
        return v; });
    if (prop == "C09reg") return gens::weighted<std::vector<Op>>({{40, single}, {60, regburst}});
    // a recipient whose pipe is full while others are not: sends that reach it and others in one call
    auto overflow = gen::map(gen::tuple(slot, slot, slot, gens::weighted_values<long>({{2, 8191}, {2, 8192}, {2, 8193}, {1, 9000}}), gens::range<long>(0, 4), gens::range<long>(1, 4)), [](std::tuple<int, int, int, long, long, long> t) {
        std::vector<Op> v{mkop(P::O_FLOOD, std::get<0>(t), std::get<1>(t), std::get<3>(t))};
        switch (std::get<4>(t)) {
        case 0: v.push_back(mkop(P::O_BCAST, std::get<2>(t), 0, 0)); break;
        case 1: v.push_back(mkop(P::O_BCAST, std::get<2>(t), 0, 1)); break;
        case 2: v.push_back(mkop(P::O_SUB, std::get<1>(t), 0, 0, 0)); v.push_back(mkop(P::O_SUB, std::get<2>(t), 0, 0, 0)); v.push_back(mkop(P::O_PUB, std::get<0>(t), 0, 0, 0)); break;
        default: v.push_back(mkop(P::O_TELL, std::get<2>(t), std::get<1>(t), 1)); break;
        }
        v.push_back(mkop(P::O_DISPATCH, 0, 0, std::get<5>(t)));
        return v; });
    auto livecycle = gen::map(gen::tuple(slot, gens::weighted_values<long>({{3, 3}, {3, 4}, {3, 5}, {3, 6}, {1, 7}}), gens::range<long>(0, 3), gens::range<long>(1, 4), gens::range<long>(0, 6)), [](std::tuple<int, long, long, long, long> t) {
        int s = std::get<0>(t); long kind = std::get<1>(t), key = std::get<2>(t);
        std::vector<Op> v{mkop(P::O_SRC_REG, s, 0, kind, key)};
        if (std::get<4>(t) == 0) v.push_back(mkop(P::O_SRC_REG, s, 0, kind, key)); // duplicate
        if (kind == 6) v.push_back(mkop(P::O_TASK_RELEASE, 0, 0, key)); else v.push_back(mkop(P::O_SRC_FIRE, 0, 0, kind, key));
        if (std::get<4>(t) == 3) { v.push_back(mkop(P::O_PAUSE, s)); v.push_back(mkop(P::O_RESUME, s)); } // the source is ready (task finished, signal pending, ...) but not dispatched yet: pause and resume re-create its descriptor
        v.push_back(mkop(P::O_DISPATCH, 0, 0, std::get<3>(t)));
        if (std::get<4>(t) == 1) v.push_back(mkop(P::O_SRC_DEREG, s, 0, kind, key));
        if (std::get<4>(t) == 2) v.push_back(mkop(P::O_STOP, s));
        return v; });
    // something is pending, the poll call of the next dispatch fails (interrupted, or for real), later dispatches go on
    auto faultcycle = gen::map(gen::tuple(slot, slot, gens::range<long>(0, 8), gens::weighted_values<long>({{5, 1}, {2, 2}, {2, 3}, {1, 4}}), gens::range<long>(0, 3), gens::range<long>(1, 4)), [](std::tuple<int, int, long, long, long, long> t) {
        std::vector<Op> v;
        switch (std::get<4>(t)) {
        case 0: v.push_back(mkop(P::O_TELL, std::get<0>(t), std::get<1>(t))); break;
        case 1: v.push_back(mkop(P::O_FD_REG, std::get<1>(t), 0, std::get<2>(t), 0)); v.push_back(mkop(P::O_FD_WRITE, 0, 0, std::get<2>(t))); break;
        default: v.push_back(mkop(P::O_TELL, std::get<0>(t), std::get<1>(t))); v.push_back(mkop(P::O_TELL, std::get<1>(t), std::get<0>(t))); break;
        }
        v.push_back(mkop(P::O_DISPATCH, 0, 0, 1, std::get<3>(t)));
        v.push_back(mkop(P::O_DISPATCH, 0, 0, std::get<5>(t)));
        return v; });
    // a poison pill reaches a module that still holds earlier messages in its batch queue (delivered by the handler run ahead of the stop)
    auto pillbatch = gen::map(gen::tuple(slot, slot, gens::weighted_values<long>({{2, 2}, {2, 3}, {1, 5}}), gens::range<long>(1, 3), gens::range<long>(1, 3)), [](std::tuple<int, int, long, long, long> t) {
        int x = std::get<0>(t), y = std::get<1>(t);
        std::vector<Op> v{mkop(P::O_BATCH_SIZE, x, 0, std::get<2>(t))};
        for (long i = 0; i < std::get<3>(t); i++) v.push_back(mkop(P::O_TELL, y, x));
        v.push_back(mkop(P::O_DISPATCH, 0, 0, std::get<3>(t)));
        v.push_back(mkop(P::O_PILL, y, x)); v.push_back(mkop(P::O_DISPATCH, 0, 0, std::get<4>(t) + 1));
        return v; });
    // tick phrases: a subscriber to the tick topic, a short period, dispatches spaced by sleeps, then a longer period (C19.3);
    // and: only the tick is due in a poll batch while a module waits in IDLE (C01.6)
    auto tickcycle = gen::map(gen::tuple(slot, gens::weighted_values<long>({{3, 12}, {1, 14}}), gens::weighted_values<long>({{1, 2}, {2, 5}}), gens::weighted_values<long>({{1, 10}, {3, 50}, {2, 200}, {1, 0}}), gens::range<long>(2, 6), gens::range<long>(10, 17), gens::weighted_values<long>({{2, 3}, {1, 6}})),
        [](std::tuple<int, long, long, long, long, long, long> t) {
            std::vector<Op> v{mkop(P::O_SUB, std::get<0>(t), 0, std::get<1>(t), 0), mkop(P::O_SET_TICK, 0, 0, std::get<2>(t))};
            for (long i = 0; i < std::get<4>(t); i++) { v.push_back(mkop(P::O_SLEEP, 0, 0, std::get<6>(t))); v.push_back(mkop(P::O_DISPATCH, 0, 0, 1)); }
            v.push_back(mkop(P::O_SET_TICK, 0, 0, std::get<3>(t)));
            for (long i = 0; i < std::get<5>(t); i++) { v.push_back(mkop(P::O_SLEEP, 0, 0, std::get<6>(t))); v.push_back(mkop(P::O_DISPATCH, 0, 0, 1)); }
            return v; });
    auto tickeval = gen::map(gen::tuple(slot, gens::weighted_values<long>({{2, 2}, {1, 5}}), gens::range<long>(0, 3), gens::weighted_values<long>({{2, 8}, {1, 14}})), [](std::tuple<int, long, long, long> t) {
        std::vector<Op> v{mkop(P::O_SET_TICK, 0, 0, std::get<1>(t)), mkop(P::O_DRAIN)};
        if (std::get<2>(t) != 0) v.push_back(mkop(P::O_REG, std::get<0>(t), 0, 0, 0));
        v.push_back(mkop(P::O_SLEEP, 0, 0, std::get<3>(t))); v.push_back(mkop(P::O_DISPATCH, 0, 0, 1));
        v.push_back(mkop(P::O_SLEEP, 0, 0, std::get<3>(t))); v.push_back(mkop(P::O_DISPATCH, 0, 0, 1));
        return v; });
    // a PAUSED subscriber of the module notifications while every other module leaves RUNNING; it is resumed before the loop turns again
    auto pausedsub = gen::map(gen::tuple(slot, gens::weighted_values<long>({{3, 9}, {1, 8}, {2, 13}, {2, 14}}), gens::vec<long>(3, 3, gens::range<long>(0, 4)), gens::range<long>(1, 4)), [nmods](std::tuple<int, long, std::vector<long>, long> t) {
        int sub = std::get<0>(t);
        std::vector<Op> v{mkop(P::O_SUB, sub, 0, std::get<1>(t), 0), mkop(P::O_DISPATCH, 0, 0, 2), mkop(P::O_PAUSE, sub)};
        int k = 0;
        for (int x = 0; x < nmods; x++) if (x != sub) { long how = std::get<2>(t)[k++ % 3]; v.push_back(mkop(how == 0 ? P::O_STOP : how == 1 ? P::O_PAUSE : how == 2 ? P::O_DEREG : P::O_STOP, x)); }
        v.push_back(mkop(P::O_RESUME, sub)); v.push_back(mkop(P::O_DISPATCH, 0, 0, std::get<3>(t)));
        return v; });
    // handler stack operations refused by an empty token bucket must leave the stack alone
    auto tbbecome = gen::map(gen::tuple(slot, slot, gens::range<long>(0, 4), gens::weighted_values<long>({{2, 50}, {1, 100}}), gens::range<long>(0, 3)), [](std::tuple<int, int, long, long, long> t) {
        int s = std::get<0>(t), f = std::get<1>(t); long h = std::get<2>(t);
        std::vector<Op> v{mkop(P::O_BECOME, s, 0, h), mkop(P::O_BECOME, s, 0, (h + 1) % 4), mkop(P::O_SET_TB, s, 0, std::get<3>(t), 1)};
        if (std::get<4>(t) == 0) v.push_back(mkop(P::O_UNBECOME, s)); else if (std::get<4>(t) == 1) v.push_back(mkop(P::O_BECOME, s, 0, (h + 2) % 4)); else { v.push_back(mkop(P::O_UNBECOME, s)); v.push_back(mkop(P::O_UNBECOME, s)); }
        v.push_back(mkop(P::O_TELL, f, s)); v.push_back(mkop(P::O_DISPATCH, 0, 0, 2));
        v.push_back(mkop(P::O_SET_TB, s, 0, 0, 1)); v.push_back(mkop(P::O_UNBECOME, s)); v.push_back(mkop(P::O_TELL, f, s)); v.push_back(mkop(P::O_DISPATCH, 0, 0, 2)); v.push_back(mkop(P::O_UNBECOME, s));
        return v; });
    // the last module of a looping context goes away through direct calls: the context lives until the loop call returns, then is released
    auto deregall = gen::map(gen::tuple(gens::range<long>(0, 3), gens::range<long>(0, 8)), [nmods](std::tuple<long, long> t) {
        std::vector<Op> v;
        for (int x = 0; x < nmods; x++) v.push_back(mkop(P::O_DEREG, x));
        if (std::get<0>(t) == 1) v.push_back(mkop(P::O_CTX_PROBE));
        v.push_back(mkop(P::O_DISPATCH, 0, 0, 1)); v.push_back(mkop(P::O_CTX_PROBE));
        v.push_back(mkop(P::O_CTX_REG, 0, 0, std::get<1>(t))); v.push_back(mkop(P::O_REG, 0, 0, 0, 0)); v.push_back(mkop(P::O_DISPATCH, 0, 0, 1));
        return v; });
    // teardown of a context holding every module slot (in generated registration order and states)
    auto teardownfull = gen::map(gen::tuple(gens::vec<long>(4, 4, gens::range<long>(0, 4)), gens::range<long>(0, 3)), [nmods](std::tuple<std::vector<long>, long> t) {
        std::vector<Op> v;
        for (int k = 0; k < nmods; k++) { int x = (int)((std::get<0>(t)[0] + k) % nmods); v.push_back(mkop(P::O_REG, x, 0, 0, 0)); if (std::get<0>(t)[k % 4] >= 2) v.push_back(mkop(P::O_START, x)); }
        v.push_back(mkop(P::O_QUIT, 0, 0, 0)); v.push_back(mkop(P::O_DISPATCH, 0, 0, 1));
        v.push_back(mkop(P::O_CTX_DEREG)); v.push_back(mkop(P::O_CTX_PROBE));
        if (std::get<1>(t)) { v.push_back(mkop(P::O_CTX_REG, 0, 0, std::get<1>(t))); v.push_back(mkop(P::O_REG, 0, 0, 0, 0)); v.push_back(mkop(P::O_DISPATCH, 0, 0, 1)); }
        return v; });
    if (prop == "C07") {
        auto rest = gens::weighted<std::vector<Op>>({{80, single}, {5, deliver}, {4, pubdeliver}, {1, burst}, {8, loopcycle}, {1, become_cycle}, {1, fdcycle}});
        return gens::weighted<std::vector<Op>>({{90, rest}, {5, deregall}, {5, teardownfull}});
    }
    if (prop == "C08") {
        auto rest = gens::weighted<std::vector<Op>>({{35, single}, {12, deliver}, {12, pubdeliver}, {18, burst}, {10, loopcycle}, {1, become_cycle}, {1, stash_cycle}, {10, batch}, {1, fdcycle}});
        return gens::weighted<std::vector<Op>>({{95, rest}, {5, pillbatch}});
    }
    if (prop == "C17") {
        auto rest = gens::weighted<std::vector<Op>>({{35, single}, {10, deliver}, {4, pubdeliver}, {2, burst}, {4, loopcycle}, {40, become_cycle}, {4, stash_cycle}, {1, batch}, {1, fdcycle}});
        return gens::weighted<std::vector<Op>>({{95, rest}, {5, tbbecome}});
    }
    // the batching settings of a module change while it holds accumulated events and is not RUNNING (nothing may be handed over then)
    auto batchpause = gen::map(gen::tuple(slot, slot, gens::weighted_values<long>({{2, 3}, {1, 4}, {1, 5}}), gens::range<long>(1, 3), gens::weighted_values<long>({{2, 1}, {2, 2}, {1, 0}}), gens::range<long>(0, 3)), [](std::tuple<int, int, long, long, long, long> t) {
        int s = std::get<0>(t), f = std::get<1>(t);
        std::vector<Op> v{mkop(P::O_BATCH_SIZE, s, 0, std::get<2>(t))};
        for (long i = 0; i < std::get<3>(t); i++) v.push_back(mkop(P::O_TELL, f, s));
        v.push_back(mkop(P::O_DISPATCH, 0, 0, std::get<3>(t)));
        v.push_back(mkop(P::O_PAUSE, s)); v.push_back(mkop(P::O_BATCH_SIZE, s, 0, std::get<4>(t)));
        if (std::get<5>(t) == 0) v.push_back(mkop(P::O_BATCH_TIMEOUT, s, 0, 2));
        v.push_back(mkop(P::O_RESUME, s)); v.push_back(mkop(P::O_TELL, f, s)); v.push_back(mkop(P::O_DISPATCH, 0, 0, 2));
        return v; });
    if (prop == "C19" || prop == "C01") {
        std::vector<size_t> ws = prop == "C19" ? std::vector<size_t>{55, 6, 14, 2, 14, 1, 0, 1, 0, 1} : std::vector<size_t>{70, 8, 6, 1, 8, 2, 1, 1, 0, 1};
        auto rest = gens::weighted<std::vector<Op>>({{ws[0], single}, {ws[1], deliver}, {ws[2], pubdeliver}, {ws[3], burst}, {ws[4], loopcycle}, {ws[5], become_cycle}, {ws[6], stash_cycle}, {ws[7], batch}, {ws[9], fdcycle}});
        return prop == "C19" ? gens::weighted<std::vector<Op>>({{88, rest}, {5, tickcycle}, {2, tickeval}, {5, pausedsub}}) : gens::weighted<std::vector<Op>>({{88, rest}, {1, tickcycle}, {4, tickeval}, {4, pillbatch}, {3, batchpause}});
    }
    // batching settings must not survive a stop: timeout (and size) configured, module stopped and started again, plain traffic afterwards
    auto batchrestart = gen::map(gen::tuple(slot, slot, gens::weighted_values<long>({{2, 2}, {1, 5}}), gens::weighted_values<long>({{2, 0}, {1, 2}, {1, 3}}), gens::range<long>(0, 3), gens::range<long>(1, 4)), [](std::tuple<int, int, long, long, long, long> t) {
        int s = std::get<0>(t), f = std::get<1>(t);
        std::vector<Op> v{mkop(P::O_BATCH_TIMEOUT, s, 0, std::get<2>(t))};
        if (std::get<3>(t)) v.push_back(mkop(P::O_BATCH_SIZE, s, 0, std::get<3>(t)));
        if (std::get<4>(t) == 1) v.push_back(mkop(P::O_TELL, f, s));
        if (std::get<4>(t) == 2) { v.push_back(mkop(P::O_PAUSE, s)); }
        v.push_back(mkop(P::O_STOP, s)); v.push_back(mkop(P::O_START, s));
        for (long i = 0; i < std::get<5>(t); i++) v.push_back(mkop(P::O_TELL, f, s));
        v.push_back(mkop(P::O_DRAIN));
        return v; });
    if (prop == "C13") {
        auto rest = gens::weighted<std::vector<Op>>({{35, single}, {8, deliver}, {20, pubdeliver}, {8, burst}, {4, loopcycle}, {1, become_cycle}, {1, stash_cycle}, {20, batch}, {8, fdcycle}});
        return gens::weighted<std::vector<Op>>({{90, rest}, {6, batchrestart}, {4, batchpause}});
    }
    // a one-shot (or periodic) timer expires behind other ready sources of the same poll batch, whose handlers may take its module out of RUNNING and back
    auto tmrbatch = gen::map(gen::tuple(slot, slot, slot, gens::range<long>(0, 3), gens::weighted_values<long>({{3, 4}, {2, 7}, {1, 0}, {1, 5}}), gens::range<long>(0, 4), gens::weighted_values<long>({{2, 4}, {1, 8}}), gens::range<long>(1, 4)),
        [](std::tuple<int, int, int, long, long, long, long, long> t) {
            int s = std::get<0>(t), f = std::get<1>(t), r = std::get<2>(t);
            std::vector<Op> v{mkop(P::O_TMR_REG, s, 0, std::get<3>(t), std::get<4>(t))};
            switch (std::get<5>(t)) {
            case 0: v.push_back(mkop(P::O_TELL, f, r)); break;
            case 1: v.push_back(mkop(P::O_TELL, f, r)); v.push_back(mkop(P::O_TELL, f, s)); break;
            case 2: v.push_back(mkop(P::O_FD_REG, r, 0, 7 - std::get<3>(t), 0)); v.push_back(mkop(P::O_FD_WRITE, 0, 0, 7 - std::get<3>(t))); break;
            default: v.push_back(mkop(P::O_BCAST, f, 0, 0)); break;
            }
            v.push_back(mkop(P::O_SLEEP, 0, 0, std::get<6>(t))); v.push_back(mkop(P::O_DISPATCH, 0, 0, std::get<7>(t)));
            v.push_back(mkop(P::O_SLEEP, 0, 0, std::get<6>(t))); v.push_back(mkop(P::O_DISPATCH, 0, 0, 2));
            return v; });
    if (prop == "C03") {
        auto rest = gens::weighted<std::vector<Op>>({{50, single}, {8, deliver}, {8, pubdeliver}, {3, burst}, {8, loopcycle}, {1, become_cycle}, {1, stash_cycle}, {2, batch}, {18, fdcycle}});
        return gens::weighted<std::vector<Op>>({{69, rest}, {18, livecycle}, {8, faultcycle}, {5, tmrbatch}});
    }
    if (prop == "C03" || prop == "C20" || prop == "C09" || prop == "C04") {
        size_t lw = prop == "C04" ? 6 : 18;
        auto rest = (prop == "C04") ? gens::weighted<std::vector<Op>>({{52, single}, {10, deliver}, {10, pubdeliver}, {4, burst}, {6, loopcycle}, {3, become_cycle}, {4, stash_cycle}, {3, batch}, {5, fdcycle}, {3, overflow}, {3, pillbatch}})
                                   : gens::weighted<std::vector<Op>>({{50, single}, {8, deliver}, {8, pubdeliver}, {3, burst}, {8, loopcycle}, {1, become_cycle}, {1, stash_cycle}, {2, batch}, {18, fdcycle}});
        return gens::weighted<std::vector<Op>>({{100 - lw - 5, rest}, {lw, livecycle}, {5, tmrbatch}});
    }
    if (prop == "C02") return gens::weighted<std::vector<Op>>({{97, gens::weighted<std::vector<Op>>({{45, single}, {12, deliver}, {22, pubdeliver}, {6, burst}, {6, loopcycle}, {2, become_cycle}, {2, stash_cycle}, {2, batch}, {2, fdcycle}})}, {3, overflow}});
    std::map<std::string, std::vector<size_t>> tab = {
        //            single deliver pub burst loop become stash batch tb fd
        {"C01", {70, 8, 6, 1, 8, 2, 1, 1, 0, 1}}, {"C02", {45, 12, 22, 6, 6, 2, 1, 2, 0, 1}}, {"C03", {45, 10, 8, 4, 8, 1, 1, 2, 0, 18}},
        {"C04", {55, 10, 10, 4, 6, 3, 4, 3, 0, 5}}, {"C07", {80, 5, 4, 1, 8, 1, 0, 0, 0, 1}}, {"C08", {35, 12, 12, 18, 10, 1, 1, 10, 0, 1}},
        {"C09", {80, 4, 8, 1, 3, 0, 0, 0, 0, 6}}, {"C13", {35, 8, 20, 8, 4, 1, 1, 20, 0, 8}}, {"C15", {80, 6, 8, 1, 4, 1, 0, 0, 0, 1}},
        {"C16", {35, 10, 8, 4, 4, 4, 32, 2, 0, 1}}, {"C17", {35, 10, 4, 2, 4, 40, 4, 1, 0, 1}}, {"C18", {25, 6, 3, 20, 2, 2, 1, 1, 38, 0}},
        {"C19", {55, 6, 14, 2, 14, 1, 0, 1, 0, 1}}, {"C20", {50, 6, 4, 1, 8, 1, 1, 1, 0, 24}},
    };
    auto it = tab.find(prop);
    std::vector<size_t> ws = it != tab.end() ? it->second : std::vector<size_t>{60, 8, 8, 4, 6, 3, 3, 3, 0, 4};
    return gens::weighted<std::vector<Op>>({{ws[0], single}, {ws[1], deliver}, {ws[2], pubdeliver}, {ws[3], burst}, {ws[4], loopcycle}, {ws[5], become_cycle}, {ws[6], stash_cycle}, {ws[7], batch}, {ws[8], tb}, {ws[9], fdcycle}});
}

static rc::Gen<Script> gen_script(const Weights &w, int nmods, const std::string &prop, int kind) {
    using namespace rc;
    std::map<int, double> sw = w.script;
    if (kind == P::CB_EVAL) {
        // evaluation callbacks only observe and send: they do not change module states or registrations (kept out of the domain)
        for (int c : {P::O_REG, P::O_DEREG, P::O_START, P::O_PAUSE, P::O_RESUME, P::O_STOP, P::O_PILL, P::O_CTX_DEREG, P::O_QUIT}) sw.erase(c);
    }
    if (kind != P::CB_EVT) { sw.erase(P::O_STASH); sw.erase(P::O_REF_EVT); }
    if (sw.empty()) return gen::just(Script());
    if (prop == "C16" && kind == P::CB_EVT) sw[P::O_STASH] = 30;
    // script phrases: a callback that takes a module (possibly its own) out of RUNNING and straight back, or renews a subscription, while other events of the
    // same poll batch are still to be processed (the sources of the bounced module are re-created in between)
    auto sphrase = gen::map(gen::tuple(gens::range<int>(0, nmods), gens::range<int>(0, nmods), gens::range<long>(0, 5), gens::range<long>(0, 8)), [kind](std::tuple<int, int, long, long> t) {
        int x = std::get<0>(t), y = std::get<1>(t); std::vector<Op> v;
        switch (std::get<2>(t)) {
        case 0: case 1: v = {mkop(P::O_PAUSE, x), mkop(P::O_RESUME, x)}; break;
        case 2: v = {mkop(P::O_PAUSE, x), mkop(P::O_RESUME, x), mkop(P::O_TELL, y, x)}; break;
        case 3: v = {mkop(P::O_UNSUB, x, 0, std::get<3>(t)), mkop(P::O_SUB, x, 0, std::get<3>(t), 0)}; break;
        default: v = {mkop(P::O_PAUSE, x), mkop(P::O_PAUSE, y), mkop(P::O_RESUME, y), mkop(P::O_RESUME, x)}; break;
        }
        if (kind == P::CB_EVAL) v.clear();
        return v; });
    auto sops = gens::weighted<std::vector<Op>>({{88, gens::vec<Op>(0, 4, gen_op_from(sw, nmods, prop))}, {12, sphrase}});
    return gen::map(gen::tuple(sops, gens::weighted_values<int>({{5, 1}, {2, 0}}), gens::weighted_values<int>({{6, 0}, {1, 4}, {1, 11}, {1, 2}, {1, 9}})),
                    [](std::tuple<std::vector<Op>, int, int> t) { Script s; s.ops = std::get<0>(t); s.ret = std::get<1>(t); s.err = std::get<2>(t); return s; });
}

static rc::Gen<Prog> gen_prog(const rt::Args &args) {
    using namespace rc;
    std::string prop = args.prop;
    const bool registry = args.profile == "registry";
    if (registry) prop = "C09reg";
    Weights w = profile_weights(prop);
    return gen::mapcat(gens::weighted_values<int>({{1, 1}, {4, 2}, {4, 3}, {2, 4}}), [=](int nmods) {
        const size_t evt_lo = (prop == "C16" || prop == "C04") ? 2 : 0, evt_hi = (prop == "C16") ? 8 : 4;
        auto scripts = gens::vec<std::vector<std::vector<Script>>>(nmods, nmods, // per module
            gen::map(gen::tuple(gens::vec<Script>(0, 2, gen_script(w, nmods, prop, P::CB_EVAL)),
                                gens::vec<Script>(0, 2, gen_script(w, nmods, prop, P::CB_START)),
                                gens::vec<Script>(0, 2, gen_script(w, nmods, prop, P::CB_STOP)),
                                gens::vec<Script>(evt_lo, evt_hi, gen_script(w, nmods, prop, P::CB_EVT))),
                     [](std::tuple<std::vector<Script>, std::vector<Script>, std::vector<Script>, std::vector<Script>> t) {
                         return std::vector<std::vector<Script>>{std::get<0>(t), std::get<1>(t), std::get<2>(t), std::get<3>(t)}; }));
        auto hooks = gens::vec<int>(nmods, nmods, gens::weighted_values<int>({{2, 0}, {2, 2}, {2, 6}, {2, 7}, {1, 1}, {1, 3}, {1, 4}, {1, 5}}));
        // prelude: context + most modules registered, some started by hand
        // module flags used by the prelude registrations (harness encoding: 1 replace, 2 persist, 4 userdata autofree, 8 deny ctx, 16 deny pub, 32 deny sub, 64 name dup)
        auto preflags = (prop == "C15") ? gens::weighted_values<int>({{4, 0}, {3, 1}, {2, 2}, {4, 8}, {2, 16}, {2, 32}, {1, 9}, {1, 24}, {1, 3}, {1, 4}, {1, 64}})
                      : (prop == "C19" || prop == "C07" || prop == "C01") ? gens::weighted_values<int>({{10, 0}, {3, 1}, {1, 2}, {1, 4}, {1, 64}, {1, 8}})
                      : gens::weighted_values<int>({{14, 0}, {1, 1}, {1, 2}, {1, 4}, {1, 64}, {1, 8}, {1, 16}, {1, 32}});
        // driving mode: the body runs under m_ctx_dispatch() calls issued by the harness, or inside a blocking m_ctx_loop() (driver module executes it)
        const long loop_share = (prop == "C18" || registry) ? 0 : (prop == "C03" || prop == "C08" || prop == "C02" || prop == "C01" || prop == "C19" || prop == "C13") ? 25 : 12;
        auto prelude = gen::tuple(gen::map(gen::pair(gens::weighted_values<long>({{5, 0}, {3, 1}, {1, 2}, {1, 4}, {1, 5}}), gens::weighted_values<long>({{100 - loop_share, 0}, {loop_share / 2 + 1, 1}, {loop_share / 2, 2}})), [](std::pair<long, long> pr) { return pr.first + 16 * pr.second; }), gens::vec<int>(nmods, nmods, gens::weighted_values<int>({{1, 0}, {5, 1}, {3, 2}})), gens::vec<int>(nmods, nmods, preflags));
        auto body = gen::map(gen::scale(0.25, gen::container<std::vector<std::vector<Op>>>(gen_phrase(w, nmods, prop))), [](std::vector<std::vector<Op>> ph) {
            std::vector<Op> v; for (auto &p : ph) for (auto &o : p) v.push_back(o);
            if (v.size() > 70) v.resize(70); return v; });
        return gen::map(gen::tuple(scripts, hooks, prelude, body), [=](std::tuple<std::vector<std::vector<std::vector<Script>>>, std::vector<int>, std::tuple<long, std::vector<int>, std::vector<int>>, std::vector<Op>> t) {
            Prog p; p.nmods = nmods; p.profile = registry ? "registry" : prop;
            for (int i = 0; i < nmods; i++) {
                p.mods[i].hooks = std::get<1>(t)[i];
                for (int k = 0; k < P::CB_NKINDS; k++) p.mods[i].scripts[k] = std::get<0>(t)[i][k];
            }
            const long loopmode = std::get<0>(std::get<2>(t)) / 16;
            { long h = 0; for (int i = 0; i < nmods; i++) h = h * 7 + std::get<1>(t)[i] + std::get<1>(std::get<2>(t))[i]; p.cyc = (h % 3) == 0; // a third of the programs repeat their callback scripts cyclically
              p.names = ((h / 3) % 4) == 0; } // a quarter use module names that collide in the context's module map
            Op c; c.code = P::O_CTX_REG; c.a = std::get<0>(std::get<2>(t)) % 16; p.ops.push_back(c);
            auto &pre = std::get<1>(std::get<2>(t));
            for (int i = 0; i < nmods; i++) {
                if (pre[i] >= 1) { Op r; r.code = P::O_REG; r.s = i; r.a = std::get<2>(std::get<2>(t))[i]; r.b = (i % 2); p.ops.push_back(r); }
                if (pre[i] >= 2 && !registry) { Op s; s.code = P::O_START; s.s = i; p.ops.push_back(s); }
            }
            if (!registry && loopmode) { Op d; d.code = P::O_LOOP; d.a = loopmode == 1 ? 0 : 9; p.ops.push_back(d); } // blocking loop: everything that follows is executed by the driver module
            else if (!registry && std::get<0>(std::get<2>(t)) % 16 != 5) { Op d; d.code = P::O_DISPATCH; d.a = 1; p.ops.push_back(d); } // usually start the loop right away
            for (auto &o : std::get<3>(t)) p.ops.push_back(o);
            return p;
        });
    });
}

static bool own_rule(const std::string &prop, const std::string &rule) {
    if (getenv("VERIF_ALLRULES")) return true; // diagnostic mode: every rule of every property counts (used to look at what the foreign-rule class hides)
    if (rule.size() > 6 && rule.compare(rule.size() - 6, 6, ".CRASH") == 0) return true;
    return rule.compare(0, prop.size() + 1, prop + ".") == 0;
}

static std::string nontrivial_rule(const std::string &prop) {
    static const std::map<std::string, std::string> r = {
        {"C01", "program has >= 2 modules, at least one state-changing call refused by the state machine and at least one accepted transition"},
        {"C02", "some accepted message had >= 2 eligible recipients or >= 1 running non-eligible module, and at least one user message was delivered"},
        {"C03", "one dispatch call ran >= 2 handlers, or a handler left an errno value behind and another event of the same batch followed, or an event of a live signal/path/pid/task/threshold source was delivered"},
        {"C04", "a module stopped/deregistered itself or unsubscribed inside a callback with messages in flight, or a reference was released after its owner was deregistered, or a message from a deregistered (zombie) sender was delivered, or a pipe-filling burst was sent"},
        {"C07", "teardown with a non-IDLE module present, a duplicate context registration, a call on a thread without context, registration after finalize, or an automatic release of the context"},
        {"C08", "one recipient received >= 2 messages from >= 2 senders or across >= 2 handler invocations, or a poison pill was honoured"},
        {"C09", "two keys of one source kind coexisted in a module and a duplicate registration or a removal by key followed"},
        {"C13", "batch size > 1, a batch timeout or a low-priority subscription was in force and one handler invocation carried >= 2 events"},
        {"C15", "a restricted call (deny-pub / deny-sub / context call under deny-ctx / deregistration of a persistent module while looping / reserved topic / duplicate name / replacement) was attempted"},
        {"C16", "m_mod_unstash with a finite n was issued on a non-empty stash"},
        {"C17", "a delivery was observed while the become stack was non-empty and another one after an unbecome or a stop"},
        {"C18", "at least one token-consuming call was refused with EAGAIN and a later one was accepted"},
        {"C19", "a subscriber received a system notification about a transition of another module"},
        {"C20", "a timer/signal/path/pid/task/threshold source was live, or an auto-close / duplicated descriptor was registered, or the library closed an auto-close descriptor"},
    };
    auto it = r.find(prop);
    return it == r.end() ? "see DESIGN.md section 4" : it->second;
}

int main(int argc, char **argv) {
    rcm::Engine<Prog> E;
    {
        rt::Args a0 = rt::parse_args(argc, argv);
        E.rule_text = "Non-trivial (" + a0.prop + (a0.profile.empty() ? "" : "/" + a0.profile) + "): " + nontrivial_rule(a0.prop) + ". Generation: ";
    }
    E.rule_text += "rapidcheck-generated actor programs (<= 4 modules with scripted eval/start/stop/event callbacks of <= 4 re-entrant ops, <= 45 top-level ops incl. dispatch/drain steps; op weights per property profile) executed in a forked child against the ASan/UBSan build with a lock-step reference model (life-cycle state machine, per-module mailbox, subscriptions with libc regex, handler stack, stash FIFO, batching settings, source sets, context life cycle); every API return value, every callback and every event list is checked against the model, plus allocator/descriptor accounting after teardown. Distinct = distinct program text.";
    E.gen = gen_prog;
    E.eval = [](const Prog &p, const rt::Args &a) {
        rt::Verdict v = run_actor_program(p, a.prop);
        if (!v.ok && !own_rule(a.prop, v.rule)) {
            // a rule of another property fired first: not this check's business; the model may be out of step, so the case ends here
            rt::Verdict w; w.ok = true; w.inconclusive = true; w.classes = v.classes; w.classes.push_back("foreign-rule:" + v.rule); w.nontrivial = false;
            return w;
        }
        return v;
    };
    E.to_text = [](const Prog &p) { return prog::to_text(p); };
    E.from_text = [](const std::string &s, Prog &p) { return prog::from_text(s, p); };
    E.default_cases = [](const rt::Args &a) { if (a.prop == "C18") return a.tier == "thorough" ? 6000L : 350L; return a.tier == "thorough" ? 40000L : 2500L; };
    E.fork_eval = true;
    return rcm::run(argc, argv, E);
}
