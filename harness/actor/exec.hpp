// Engine B — executor: runs a program against the real library with the model in lock step.
#pragma once
#include <fcntl.h>
#include <unistd.h>
#include <errno.h>
#include <time.h>
#include <dirent.h>
#include <sys/eventfd.h>
#include <sys/stat.h>
#include "../common/rt.hpp"
#include "../common/track.hpp"
#include "model.hpp"

using namespace model;
using prog::Op; using prog::Prog; using prog::Script;

struct UBox { Inst *inst; };

struct Frame {            // an executing library->user callback
    Inst *inst; int kind; std::vector<EvRec> events; int handler_id;
};

struct Exec {
    const Prog &P;
    rt::Verdict v;
    Ctx ctx;
    std::deque<Inst> insts;               // stable addresses
    Inst *cur[prog::MAX_MODS] = {nullptr, nullptr, nullptr, nullptr};
    int cb_count[prog::MAX_MODS + 1][prog::CB_NKINDS] = {{0}};   // last row: the driver module of blocking-loop mode
    std::vector<Frame> cbstack;
    std::map<long, Payload> payloads;
    std::map<void *, long> payload_by_ptr;
    long next_payload = 1, next_serial = 1, next_token = 1;
    std::vector<const m_evt_t *> retained_evts; std::vector<EvRec> retained_recs;
    int step = 0, depth = 0;
    bool in_dispatch = false;
    bool regdereg_in_pass = false;        // a module was (de)registered during the current evaluation window
    std::set<std::string> cls;
    bool nontrivial[32] = {false};
    long counters_skipped = 0;
    int harness_fd[8][2];                 // pipes owned by the harness (read end registered as source)
    bool harness_fd_open[8];
    std::set<int> fds_before;
    double t_start = 0;
    std::string ctx_name_store;
    void *ctx_userdata = nullptr;
    // per-property non-trivial flags (filled while running)
    std::map<std::string, bool> nt;
    std::string prop;                     // property being checked (selects profile-specific behaviour only)
    bool ctx_teardown = false, torn_in_teardown = false;
    // blocking-loop mode: a driver module executes the remaining top-level ops, one per handler invocation
    Inst *driver = nullptr; int drv_fd = -1; size_t loop_next_op = 0; bool in_loop = false, loop_quit_pending = false, loop_started_pending = false; int loop_final_code = 0;
    void run_blocking_loop(const Op &op, size_t next_op);
    void driver_step();
    bool nt_loop_mode = false;
    int handlers_in_dispatch = 0; bool errno_poisoned_in_dispatch = false;
    bool unobserved_mode = false; int ctx_gen = 0; long excluded_kf = 0; double dispatch_began_at = 0;
    std::vector<long> pending_free_checks; void check_pending_frees();
    bool nt_last_illegal = false; long fd_bytes[8];
    std::deque<UBox> boxes;
    double tick_armed_at = 0; long ticks_seen = 0; bool tick_ever = false; long tick_grace = 1; double prev_dispatch_began = 0; int last_eagain_step = -1; int replacing_slot = -1; long tick_base = 0; bool ctx_name_may_be_null = false; std::string modname[prog::MAX_MODS]; void choose_module_names(); int gen_at_stop = 0; bool resub_owned_ok = true; /* re-subscription over subscriptions owning their user data / a duplicated topic used to be excluded: the defects behind that exclusion are repaired */ std::map<long, std::set<long>> sub_tokens; std::map<long, int> token_prio; bool retire_oneshot_by_token(Inst *x, long token); void tick_rearm(double armed_at);
    bool nt_c01_accept = false, nt_c01_reject = false, nt_c02_shape = false, nt_c02_delivery = false;
    static void payload_free_hook(void *p);
    int model_send(Inst *S, Inst *direct, bool has_topic, const std::string &topic, long payload);
    void do_op2(const Op &op, bool top, Inst *S, Inst *T, bool deny);
    void do_op3(const Op &op, bool top, Inst *S, Inst *T, bool deny);
    void tb_after_call(Inst *S, const Op &op, int r, double t0);
    void drop_retained(size_t i);
    void check_zombie_answers(Inst *x);
    bool timers_active();
    // a descriptor source leaves its module: an auto-close descriptor now belongs to (and is closed by) the library
    void release_fd_src(const FdSrc &f) { if (f.autoclose && !f.dup && !autoclose_closed[f.idx]) autoclose_pending[f.idx] = true; }
    // live kernel objects owned by the harness
    std::string tmpdir; pid_t kids[3] = {0, 0, 0}; bool kid_dead[3] = {false, false, false};
    bool task_used[3] = {false, false, false}, task_started[3] = {false, false, false};
    void live_src_op(const Op &op, Inst *S, bool top); void live_fire(const Op &op); void release_all_tasks();
    void wait_for_rearmed_tasks(Inst *S, const std::set<int> &fds_before); void live_setup(); void live_teardown(); bool live_key_elsewhere(Inst *S, int kind, long ki);
    int refused_fd_reg = -1;
    bool harness_closing = false; bool autoclose_pending[8], autoclose_closed[8]; unsigned long harness_ino[8];
    void on_lib_close(int fd, int r, int e);
    // is a poison pill the first required pending entry of y?
    bool pill_is_next(Inst *y) { for (auto &m : y->mailbox) { if (m.pill) return true; if (!m.optional) return false; } return false; }
    bool maybe_fired(Inst *y, const Sub &s) { if (!s.oneshot) return false; if (s.maybe_gone) return true; /* tick notifications are not announced to the model: a one-shot subscription they match may be consumed at any time */ if (tick_ever && (s.topic == M_PS_CTX_TICK || (s.re_ok && regexec(&s.re, M_PS_CTX_TICK, 0, nullptr, 0) == 0))) return true; for (auto &m : y->mailbox) for (auto &v : m.via) if (v.sub_topic == s.topic) return true; return false; }
    void close_harness_fds();
    std::set<int> open_fds();

    Exec(const Prog &p) : P(p) {}

    // ---- reporting ----
    void trace(const std::string &s) { rt::shlog_append(s + "\n"); }
    void fail(const char *rule, const std::string &msg) {
        if (!v.ok) return;
        std::ostringstream o; o << "step " << step << " depth " << cbstack.size() << ": " << msg << "\n--- trace tail ---\n" << rt::shlog_tail(1500);
        v.fail(rule, o.str());
        trace(std::string("FAIL ") + rule + " " + msg);
    }
    bool ok() const { return v.ok; }
    static double now() { return rt::now_s(); }

    // ---- helpers ----
    Inst *slot_inst(int s) { if (s < 0 || s >= P.nmods) return nullptr; return cur[s]; }
    m_mod_t *handle(Inst *x) { return x ? (x->h ? x->h : (x->extra > 0 ? x->raw : nullptr)) : nullptr; }
    Inst *inst_by_raw(const m_mod_t *m) { for (auto &i : insts) if (i.raw == m && (i.h || i.extra > 0 || true)) return &i; return nullptr; }
    Inst *innermost_cb_inst() { return cbstack.empty() ? nullptr : cbstack.back().inst; }
    bool deny_ctx_active() { Inst *i = innermost_cb_inst(); return i && (i->lib_flags & M_MOD_DENY_CTX); }
    static const char *state_name(int s) {
        switch (s) { case M_MOD_IDLE: return "IDLE"; case M_MOD_RUNNING: return "RUNNING"; case M_MOD_PAUSED: return "PAUSED"; case M_MOD_STOPPED: return "STOPPED"; case M_MOD_ZOMBIE: return "ZOMBIE"; default: return "NONE"; }
    }
    std::string iname(Inst *x) { if (!x) return "-"; return "m" + std::to_string(x->slot) + "#" + std::to_string(x->id); } // (trace label; the registration name is x->name)

    // implemented in exec_model.inc / exec_ops.inc / exec_cb.inc
    void observe_pre(Inst *start_cb_of = nullptr, Inst *stop_cb_of = nullptr);
    void settle(Inst *except);
    void model_enter_running(Inst *x);
    void model_started_notify(Inst *x);
    void model_stop(Inst *x, bool dereg, int prev_state_override);
    void model_clear_module(Inst *x);
    void drop_mailbox(Inst *x);
    void make_mailbox_optional(Inst *x) { for (auto &m : x->mailbox) if (!m.optional) { m.optional = true; payload_hold(m.payload, -1); for (auto &via : m.via) if (via.oneshot) { auto it = x->subs.find(via.sub_topic); if (it != x->subs.end()) it->second.maybe_gone = true; } } }
    void notify(const char *topic, Inst *sender, bool required);
    bool sub_matches(Inst *y, const std::string &topic, std::vector<Sub *> *which);
    void accept_msg(Inst *to, const Msg &m);
    void payload_hold(long id, int d);
    long new_payload(bool autofree, void **ptr);

    int run_script(Inst *x, int kind);
    void do_op(const Op &op, bool top);
    void do_dispatch_once(int &ret, int fault = 0);
    void probe(const char *where);
    void on_cb_begin(Inst *x, int kind, const m_queue_t *evts, int handler_id);
    int on_cb_end(Inst *x, int kind);
    void check_handler_events(Inst *x, Frame &f);
    void loop_end_obligations();
    void reconcile_unobserved(bool starts);
    void quiescence_obligations();
    void epilogue();
    rt::Verdict run();
};

extern Exec *g_exec;
