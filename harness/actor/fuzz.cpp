// Engine B — libFuzzer target: bytes -> actor program (structure-aware decoder), same executor, model and oracle as
// the rapidcheck tier.  Each program still runs in a forked child (global library state, signals, helper processes and
// crashes stay contained); the sanitizer-coverage counters of the whole binary live in memory shared with the child, so
// libFuzzer sees the coverage the child produced.
//   FUZZ_PROP  property whose profile and rules apply (default C04)
#include <fuzzer/FuzzedDataProvider.h>
#include <sys/mman.h>
#include "../common/rt.hpp"
#include "prog.hpp"

using prog::Op; using prog::Prog; using prog::Script;
namespace P = prog;

rt::Verdict run_actor_program(const Prog &p, const std::string &prop);

// the bounds of the inline 8-bit counter section are recorded when the compiler-generated constructor registers them
// (-Wl,--wrap=__sanitizer_cov_8bit_counters_init; naming the section's __start_/__stop_ symbols here would break that registration)
static uint8_t *g_cnt_start = nullptr, *g_cnt_stop = nullptr;
extern "C" void __real___sanitizer_cov_8bit_counters_init(uint8_t *start, uint8_t *stop);
extern "C" void __wrap___sanitizer_cov_8bit_counters_init(uint8_t *start, uint8_t *stop) {
    if (!g_cnt_start || start < g_cnt_start) g_cnt_start = start;
    if (!g_cnt_stop || stop > g_cnt_stop) g_cnt_stop = stop;
    __real___sanitizer_cov_8bit_counters_init(start, stop);
}

static std::string g_prop = "C04";

// make the pages that lie completely inside the 8-bit counter section shared between this process and its children
static void share_coverage_counters() {
    const uintptr_t page = 4096;
    if (!g_cnt_start) return;
    uintptr_t a = ((uintptr_t)g_cnt_start + page - 1) & ~(page - 1), b = (uintptr_t)g_cnt_stop & ~(page - 1);
    if (b <= a) return;
    size_t len = b - a;
    void *copy = malloc(len); memcpy(copy, (void *)a, len);
    void *m = mmap((void *)a, len, PROT_READ | PROT_WRITE, MAP_SHARED | MAP_ANONYMOUS | MAP_FIXED, -1, 0);
    if (m == MAP_FAILED) { perror("mmap counters"); _exit(3); }
    memcpy((void *)a, copy, len); free(copy);
}

extern "C" int LLVMFuzzerInitialize(int *, char ***) {
    if (const char *p = getenv("FUZZ_PROP")) g_prop = p;
    if (!getenv("FUZZ_NOSHARE")) share_coverage_counters();
    return 0;
}

static long pick(FuzzedDataProvider &f, std::initializer_list<long> vals) {
    size_t i = f.ConsumeIntegralInRange<size_t>(0, vals.size() - 1);
    return *(vals.begin() + i);
}

static Op decode_op(FuzzedDataProvider &f, int nmods, bool script, int kind) {
    // opcode table: frequent ops appear several times
    static const int top_codes[] = {P::O_DISPATCH, P::O_DISPATCH, P::O_DISPATCH, P::O_DISPATCH, P::O_DRAIN, P::O_TELL, P::O_TELL, P::O_TELL, P::O_PUB, P::O_PUB, P::O_SUB, P::O_SUB,
        P::O_UNSUB, P::O_BCAST, P::O_REG, P::O_DEREG, P::O_START, P::O_START, P::O_PAUSE, P::O_RESUME, P::O_STOP, P::O_PILL, P::O_QUIT, P::O_QUIT, P::O_CTX_REG, P::O_CTX_DEREG,
        P::O_CTX_FINALIZE, P::O_LOOP, P::O_SET_TICK, P::O_CTX_PROBE, P::O_BECOME, P::O_UNBECOME, P::O_UNSTASH, P::O_BATCH_SIZE, P::O_BATCH_TIMEOUT, P::O_DROP_EVT, P::O_DROP_MODREF,
        P::O_LOOKUP, P::O_FD_REG, P::O_FD_DEREG, P::O_FD_WRITE, P::O_FD_WRITE, P::O_FD_READ, P::O_TMR_REG, P::O_TMR_DEREG, P::O_SRC_REG, P::O_SRC_DEREG, P::O_SRC_FIRE, P::O_TASK_RELEASE,
        P::O_SLEEP, P::O_FLOOD};
    static const int script_codes[] = {P::O_TELL, P::O_TELL, P::O_PUB, P::O_PUB, P::O_SUB, P::O_UNSUB, P::O_BCAST, P::O_REG, P::O_DEREG, P::O_DEREG, P::O_START, P::O_PAUSE, P::O_RESUME,
        P::O_STOP, P::O_STOP, P::O_PILL, P::O_QUIT, P::O_CTX_PROBE, P::O_CTX_DEREG, P::O_CTX_FINALIZE, P::O_SET_TICK, P::O_BECOME, P::O_UNBECOME, P::O_STASH, P::O_STASH, P::O_UNSTASH,
        P::O_BATCH_SIZE, P::O_REF_EVT, P::O_REF_EVT, P::O_DROP_EVT, P::O_FD_REG, P::O_FD_DEREG, P::O_FD_WRITE, P::O_ERRNO, P::O_TMR_REG, P::O_TMR_DEREG};
    Op o;
    if (script) o.code = script_codes[f.ConsumeIntegralInRange<size_t>(0, sizeof script_codes / sizeof *script_codes - 1)];
    else o.code = top_codes[f.ConsumeIntegralInRange<size_t>(0, sizeof top_codes / sizeof *top_codes - 1)];
    // same exclusions as the rapidcheck generator (DESIGN 13.3): evaluation callbacks only observe and send
    if (script && kind == P::CB_EVAL) switch (o.code) { case P::O_REG: case P::O_DEREG: case P::O_START: case P::O_PAUSE: case P::O_RESUME: case P::O_STOP: case P::O_PILL: case P::O_CTX_DEREG: case P::O_QUIT: o.code = P::O_TELL; break; default: break; }
    if (script && kind != P::CB_EVT && (o.code == P::O_STASH || o.code == P::O_REF_EVT)) o.code = P::O_PUB;
    o.s = f.ConsumeIntegralInRange<int>(0, nmods - 1); o.t = f.ConsumeIntegralInRange<int>(0, nmods - 1);
    switch (o.code) {
    case P::O_CTX_REG: o.a = f.ConsumeIntegralInRange<long>(0, 7); break;
    case P::O_LOOP: o.a = pick(f, {0, 9, 200}); break;
    case P::O_QUIT: o.a = pick(f, {0, 7, 42, 255, 4, 11}); break;
    case P::O_DISPATCH: o.a = pick(f, {1, 1, 1, 2, 2, 4, 12}); o.b = pick(f, {0, 0, 0, 0, 0, 0, 0, 0, 0, 0, 0, 1, 3, 5}); break;
    case P::O_SET_TICK: o.a = pick(f, {0, 2, 5}); break;
    case P::O_REG: o.a = pick(f, {0, 0, 0, 0, 0, 1, 1, 2, 4, 8, 16, 32, 64, 68, 9}); o.b = f.ConsumeIntegralInRange<long>(0, 1); break;
    case P::O_SUB: o.a = f.ConsumeIntegralInRange<long>(0, P::NTOPICS - 1); o.b = pick(f, {0, 0, 0, 0, 1, 2, 3, 3, 4, 4, 8, 16, 12, 5}); break;
    case P::O_UNSUB: o.a = f.ConsumeIntegralInRange<long>(0, P::NTOPICS - 1); break;
    case P::O_TELL: case P::O_BCAST: o.a = pick(f, {0, 0, 0, 1}); break;
    case P::O_PUB: o.a = pick(f, {0, 0, 1, 1, 2, 2, 3, 7, 8, 16}); o.b = pick(f, {0, 0, 0, 1}); break;
    case P::O_FLOOD: o.a = pick(f, {8191, 8193, 9000}); break;
    case P::O_BECOME: o.a = pick(f, {0, 0, 1, 1, 2, 2, 3, 3, 100, 102}); break; // (>= 100: the stack node allocation is refused)
    case P::O_STASH: case P::O_REF_EVT: o.a = f.ConsumeIntegralInRange<long>(0, 3); break;
    case P::O_UNSTASH: o.a = pick(f, {1, 1, 2, 2, 3, 5, 0}); break;
    case P::O_BATCH_SIZE: o.a = pick(f, {0, 1, 2, 2, 3, 3, 5, -1}); break;
    case P::O_BATCH_TIMEOUT: o.a = pick(f, {0, 2, 5}); break;
    case P::O_FD_REG: o.a = f.ConsumeIntegralInRange<long>(0, 7); o.b = pick(f, {0, 0, 0, 1, 1, 2, 4, 4, 5, 6, 256, 512, 768, 769}); break;
    case P::O_FD_DEREG: case P::O_FD_WRITE: case P::O_FD_READ: o.a = f.ConsumeIntegralInRange<long>(0, 7); break;
    case P::O_TMR_REG: o.a = f.ConsumeIntegralInRange<long>(0, 3); o.b = pick(f, {0, 0, 0, 1, 3, 4, 4, 5, 768, 772}); break; // periods 1, 2, 3, 5 ms
    case P::O_TMR_DEREG: o.a = f.ConsumeIntegralInRange<long>(0, 3); break;
    case P::O_ERRNO: o.a = pick(f, {4, 11, 2, 9, 32, 255, 22}); break;
    case P::O_SRC_REG: case P::O_SRC_DEREG: o.a = f.ConsumeIntegralInRange<long>(3, 7); o.b = f.ConsumeIntegralInRange<long>(0, 2); break;
    case P::O_SRC_FIRE: o.a = f.ConsumeIntegralInRange<long>(3, 5); o.b = f.ConsumeIntegralInRange<long>(0, 2); break;
    case P::O_TASK_RELEASE: o.a = f.ConsumeIntegralInRange<long>(0, 2); break;
    case P::O_SLEEP: o.a = pick(f, {1, 2, 3}); break;
    default: break;
    }
    return o;
}

static Prog decode(const uint8_t *data, size_t size) {
    FuzzedDataProvider f(data, size);
    Prog p; p.profile = g_prop; { int fl = f.ConsumeIntegralInRange<int>(0, 7); p.cyc = (fl & 3) == 0; p.names = (fl & 4) != 0; }
    p.nmods = f.ConsumeIntegralInRange<int>(1, 4);
    for (int i = 0; i < p.nmods; i++) {
        p.mods[i].hooks = f.ConsumeIntegralInRange<int>(0, 7);
        for (int k = 0; k < P::CB_NKINDS; k++) {
            int n = f.ConsumeIntegralInRange<int>(0, k == P::CB_EVT ? 4 : 2);
            for (int j = 0; j < n; j++) {
                Script s;
                int nops = f.ConsumeIntegralInRange<int>(0, 4);
                for (int q = 0; q < nops; q++) s.ops.push_back(decode_op(f, p.nmods, true, k));
                s.ret = f.ConsumeIntegralInRange<int>(0, 3) != 0;
                s.err = (int)pick(f, {0, 0, 0, 0, 4, 11, 2, 9});
                p.mods[i].scripts[k].push_back(s);
            }
        }
    }
    // prelude as in the generated programs: a context, most modules registered, usually a started loop
    Op c; c.code = P::O_CTX_REG; c.a = pick(f, {0, 0, 0, 1, 2, 4, 5}); p.ops.push_back(c);
    for (int i = 0; i < p.nmods; i++) {
        int pre = f.ConsumeIntegralInRange<int>(0, 3);
        if (pre >= 1) { Op r; r.code = P::O_REG; r.s = i; r.a = pick(f, {0, 0, 0, 0, 0, 0, 1, 2, 4, 64, 8, 16, 32}); r.b = i % 2; p.ops.push_back(r); }
        if (pre >= 3) { Op s; s.code = P::O_START; s.s = i; p.ops.push_back(s); }
    }
    int mode = f.ConsumeIntegralInRange<int>(0, 9);
    if (mode <= 6) { Op d; d.code = P::O_DISPATCH; d.a = 1; p.ops.push_back(d); }
    else if (mode <= 8) { Op d; d.code = P::O_LOOP; d.a = mode == 7 ? 0 : 9; p.ops.push_back(d); }
    int sleeps = 0, floods = 0;
    while (f.remaining_bytes() > 0 && p.ops.size() < 60) {
        Op o = decode_op(f, p.nmods, false, 0);
        if (o.code == P::O_SLEEP && ++sleeps > 4) continue;   // keep executions fast
        if (o.code == P::O_FLOOD && ++floods > 1) continue;
        p.ops.push_back(o);
    }
    return p;
}

static bool own_rule(const std::string &prop, const std::string &rule) {
    if (rule.size() > 6 && rule.compare(rule.size() - 6, 6, ".CRASH") == 0) return true;
    return rule.compare(0, prop.size() + 1, prop + ".") == 0;
}

extern "C" int LLVMFuzzerTestOneInput(const uint8_t *data, size_t size) {
    if (size < 4) return 0;
    Prog p = decode(data, size);
    const std::string text = prog::to_text(p);
    rt::fuzz_pre(text);
    rt::Verdict v = rt::run_forked(g_prop, [&] { return run_actor_program(p, g_prop); });
    if (!v.ok && !own_rule(g_prop, v.rule)) {
        // a rule of another property fired first: not this campaign's business
        rt::Verdict w; w.ok = true; w.inconclusive = true; w.classes = v.classes; w.classes.push_back("foreign-rule:" + v.rule); w.nontrivial = false;
        v = w;
    }
    rt::fuzz_account(text, v);
    return 0;
}
